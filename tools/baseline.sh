#!/bin/bash
# Runs the repository's pinned test suite with the verif guard OFF and compares with /root/.vp/BASELINE.json.
export GOFLAGS=-mod=mod GOPROXY=off GOSUMDB=off GOTOOLCHAIN=local
cd /repo || exit 2
out=$(mktemp /var/tmp/verif.baseline.XXXXXX)
go test -json -vet=off -count=1 -timeout 25m ./... > "$out" 2>&1
python3 - "$out" <<'PY'
import json,sys
passed=set()
for ln in open(sys.argv[1]):
    try: e=json.loads(ln)
    except Exception: continue
    if e.get("Action")=="pass" and e.get("Test"):
        passed.add(e["Package"]+"::"+e["Test"])
base=json.load(open("/root/.vp/BASELINE.json"))["stable_pass"]
missing=[t for t in base if t not in passed]
print("baseline tests: %d, passing now: %d, missing: %d" % (len(base), len(base)-len(missing), len(missing)))
for m in missing: print("  MISSING", m)
sys.exit(1 if missing else 0)
PY
rc=$?
rm -f "$out"
exit $rc
