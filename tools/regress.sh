#!/bin/bash
# Regression of the seeded changes: runs the quick check of each change's property against /repo HEAD + the change
# (scratch worktree, removed afterwards) and prints one line per change.
#   tools/regress.sh [name ...]        default: every directory under /verif/seeded
# Output: <name> <property> CAUGHT <first signature> | MISSED | APPLY-FAILED
cd /verif || exit 2
names=("$@")
[ ${#names[@]} -eq 0 ] && names=($(ls /verif/seeded))
for n in "${names[@]}"; do
  d=/verif/seeded/$n
  [ -f "$d/patch.diff" ] || continue
  prop=$(python3 -c "import json;print(json.load(open('$d/meta.json'))['property'])")
  out=$(tools/mutant.sh check "$d" "$prop" quick 2>&1)
  if echo "$out" | grep -q APPLY-FAILED; then
    echo "$n $prop APPLY-FAILED"
  elif echo "$out" | grep -q '^VIOLATION'; then
    echo "$n $prop CAUGHT $(echo "$out" | grep -m1 'signature=' | sed 's/^ *//' | cut -c1-120)"
  else
    echo "$n $prop MISSED $(echo "$out" | grep -m1 -E '^(OK|ERROR)' | cut -c1-120)"
  fi
done
