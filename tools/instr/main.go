// instr: build-time schedule perturbation (DESIGN.md 3.4).
//
// Applied to a scratch copy of the repository, never to /repo itself: before every statement of
// every block / case / comm clause body in the non-test files of the chosen packages it inserts
// verifrt.P(<site>), writes package verifrt into the copy and a site table (id -> file:line:func).
// Go goroutines are pre-emptible at any statement boundary, so a yield or a short sleep there is a
// legal schedule; the pass never reorders or removes code.
package main

import (
	"bytes"
	"encoding/json"
	"flag"
	"fmt"
	"go/ast"
	"go/format"
	"go/parser"
	"go/token"
	"os"
	"path/filepath"
	"strconv"
	"strings"
)

const modulePath = "github.com/enbility/ship-go"

type site struct {
	ID   int    `json:"id"`
	File string `json:"file"`
	Line int    `json:"line"`
	Func string `json:"func"`
	Text string `json:"text"` // first line of the statement the site stands in front of
}

var sites []site

func main() {
	root := flag.String("root", "", "root of the scratch copy")
	pkgs := flag.String("pkgs", "hub,ship,ws,mdns,api", "package directories to instrument")
	out := flag.String("sites", "", "site table output (json)")
	flag.Parse()
	if *root == "" {
		fmt.Fprintln(os.Stderr, "instr: -root required")
		os.Exit(2)
	}
	for _, p := range strings.Split(*pkgs, ",") {
		dir := filepath.Join(*root, p)
		ents, err := os.ReadDir(dir)
		if err != nil {
			fmt.Fprintln(os.Stderr, "instr:", err)
			os.Exit(1)
		}
		for _, e := range ents {
			n := e.Name()
			if e.IsDir() || !strings.HasSuffix(n, ".go") || strings.HasSuffix(n, "_test.go") || n == "verif_hooks.go" {
				continue
			}
			if err := instrumentFile(filepath.Join(dir, n), filepath.Join(p, n)); err != nil {
				fmt.Fprintln(os.Stderr, "instr:", n, err)
				os.Exit(1)
			}
		}
	}
	rtDir := filepath.Join(*root, "verifrt")
	if err := os.MkdirAll(rtDir, 0o755); err != nil {
		fmt.Fprintln(os.Stderr, err)
		os.Exit(1)
	}
	var tbl strings.Builder
	tbl.WriteString("var siteFunc = [...]string{\"\",\n")
	for _, st := range sites {
		tbl.WriteString("\t" + strconv.Quote(st.Func) + ",\n")
	}
	tbl.WriteString("}\n")
	src := strings.ReplaceAll(runtimeSrc, "NSITES", strconv.Itoa(len(sites)+1))
	src = strings.Replace(src, "// SITEFUNC", tbl.String(), 1)
	if err := os.WriteFile(filepath.Join(rtDir, "verifrt.go"), []byte(src), 0o644); err != nil {
		fmt.Fprintln(os.Stderr, err)
		os.Exit(1)
	}
	if *out != "" {
		b, _ := json.Marshal(sites)
		_ = os.WriteFile(*out, b, 0o644)
	}
	fmt.Printf("instr: %d sites\n", len(sites))
}

func instrumentFile(path, rel string) error {
	fset := token.NewFileSet()
	// comments are dropped: go/ast keeps them by position and would weave them into the inserted calls;
	// the instrumented packages carry no build constraints or compiler directives (checked by the driver)
	srcBytes, err := os.ReadFile(path)
	if err != nil {
		return err
	}
	srcLines := strings.Split(string(srcBytes), "\n")
	f, err := parser.ParseFile(fset, path, srcBytes, 0)
	if err != nil {
		return err
	}
	changed := false
	curFunc := ""
	mk := func(pos token.Pos) ast.Stmt {
		id := len(sites) + 1
		ln := fset.Position(pos).Line
		text := ""
		if ln >= 1 && ln <= len(srcLines) {
			text = strings.TrimSpace(srcLines[ln-1])
		}
		sites = append(sites, site{ID: id, File: rel, Line: ln, Func: curFunc, Text: text})
		changed = true
		return &ast.ExprStmt{X: &ast.CallExpr{
			Fun:  &ast.SelectorExpr{X: ast.NewIdent("verifrt"), Sel: ast.NewIdent("P")},
			Args: []ast.Expr{&ast.BasicLit{Kind: token.INT, Value: strconv.Itoa(id)}},
		}}
	}
	weave := func(list []ast.Stmt) []ast.Stmt {
		if len(list) == 0 {
			return list
		}
		// the body of a switch/select is a block of clauses: instrument inside the clauses only
		switch list[0].(type) {
		case *ast.CaseClause, *ast.CommClause:
			return list
		}
		out := make([]ast.Stmt, 0, 2*len(list))
		for _, s := range list {
			out = append(out, mk(s.Pos()), s)
		}
		return out
	}
	for _, d := range f.Decls {
		fd, ok := d.(*ast.FuncDecl)
		if !ok || fd.Body == nil {
			continue
		}
		curFunc = fd.Name.Name
		if fd.Recv != nil && len(fd.Recv.List) > 0 {
			var b bytes.Buffer
			_ = format.Node(&b, fset, fd.Recv.List[0].Type)
			curFunc = "(" + b.String() + ")." + fd.Name.Name
		}
		ast.Inspect(fd.Body, func(n ast.Node) bool {
			switch x := n.(type) {
			case *ast.BlockStmt:
				x.List = weave(x.List)
			case *ast.CaseClause:
				x.Body = weave(x.Body)
			case *ast.CommClause:
				x.Body = weave(x.Body)
			}
			return true
		})
	}
	if !changed {
		return nil
	}
	// add the import
	imp := &ast.ImportSpec{Path: &ast.BasicLit{Kind: token.STRING, Value: strconv.Quote(modulePath + "/verifrt")}}
	added := false
	for _, d := range f.Decls {
		if gd, ok := d.(*ast.GenDecl); ok && gd.Tok == token.IMPORT {
			gd.Specs = append(gd.Specs, imp)
			if !gd.Lparen.IsValid() {
				gd.Lparen = gd.Pos()
				gd.Rparen = gd.End()
			}
			added = true
			break
		}
	}
	if !added {
		f.Decls = append([]ast.Decl{&ast.GenDecl{Tok: token.IMPORT, Specs: []ast.Spec{imp}}}, f.Decls...)
	}
	var buf bytes.Buffer
	if err := format.Node(&buf, fset, f); err != nil {
		return err
	}
	return os.WriteFile(path, buf.Bytes(), 0o644)
}

const runtimeSrc = `// Package verifrt is written by /verif/tools/instr into a scratch copy of the repository.
package verifrt

import (
	"os"
	"runtime"
	"strconv"
	"strings"
	"time"
)

// Perturbation state. Plain variables on purpose: P must not add happens-before edges that could
// hide a data race from the race detector (no atomics, locks or channels), hence go:norace.
var (
	on    bool
	mode  int    // 1 = yield only (bubbles), 2 = yield or short sleep (real time)
	seed  uint64
	prob  uint64 // a hot site acts with probability prob/1024
	hot   [NSITES]bool
	focus [NSITES]bool // sites inside the functions named by VERIF_PERTURB_FOCUS: always hot, act every second time
	focusMaxUs uint64 = 2980 // longest focus sleep in microseconds (VERIF_PERTURB_FOCUS_MAXUS)
	pause   [NSITES]bool // sites named by VERIF_PAUSE_SITES: every second pass waits VERIF_PAUSE_US (a stretched window)
	pauseUs uint64 = 5000
	hits  [NSITES]uint32
	state uint64
)

// SITEFUNC

func init() {
	if os.Getenv("VERIF_PERTURB") == "" {
		return
	}
	on = true
	mode = 1
	if os.Getenv("VERIF_PERTURB") == "sleep" {
		mode = 2
	}
	s, _ := strconv.ParseUint(os.Getenv("VERIF_PERTURB_SEED"), 10, 64)
	seed = s*0x9e3779b97f4a7c15 + 0x1234567
	prob = 96
	if v, err := strconv.ParseUint(os.Getenv("VERIF_PERTURB_PROB"), 10, 64); err == nil {
		prob = v
	}
	// a seed-derived third of the sites is hot
	x := seed
	for i := range hot {
		x ^= x << 13
		x ^= x >> 7
		x ^= x << 17
		hot[i] = x%3 == 0
	}
	state = seed | 1
	// focus: the functions a property is anchored in (comma separated substrings of the function name)
	if v, err := strconv.ParseUint(os.Getenv("VERIF_PERTURB_FOCUS_MAXUS"), 10, 64); err == nil && v > 20 {
		focusMaxUs = v
	}
	if v, err := strconv.ParseUint(os.Getenv("VERIF_PAUSE_US"), 10, 64); err == nil && v > 0 {
		pauseUs = v
	}
	for _, x := range strings.Split(os.Getenv("VERIF_PAUSE_SITES"), ",") {
		if id, err := strconv.Atoi(x); err == nil && id > 0 && id < len(pause) {
			pause[id] = true
		}
	}
	if f := os.Getenv("VERIF_PERTURB_FOCUS"); f != "" {
		for i := range focus {
			for _, sub := range strings.Split(f, ",") {
				if sub != "" && i < len(siteFunc) && strings.Contains(siteFunc[i], sub) {
					focus[i] = true
				}
			}
		}
	}
}

// P is called before every statement of the instrumented packages.
//
//go:norace
func P(id int) {
	if !on {
		return
	}
	hits[id]++
	if pause[id] {
		state ^= state << 13
		state ^= state >> 7
		state ^= state << 17
		if state%2 == 0 {
			if mode == 2 {
				time.Sleep(time.Duration(pauseUs) * time.Microsecond)
			} else {
				for k := 0; k < 40; k++ {
					runtime.Gosched()
				}
			}
		}
		return
	}
	if focus[id] {
		state ^= state << 13
		state ^= state >> 7
		state ^= state << 17
		r := state
		if r%2 == 0 {
			return
		}
		if mode == 2 && (r>>1)%2 == 0 {
			time.Sleep(time.Duration(20+(r>>12)%focusMaxUs) * time.Microsecond)
			return
		}
		for k := uint64(0); k <= (r>>12)%6; k++ {
			runtime.Gosched()
		}
		return
	}
	if !hot[id] {
		return
	}
	state ^= state << 13
	state ^= state >> 7
	state ^= state << 17
	r := state
	if r%1024 >= prob {
		return
	}
	if mode == 2 && (r>>10)%4 == 0 {
		time.Sleep(time.Duration(50+(r>>12)%1950) * time.Microsecond)
		return
	}
	for k := uint64(0); k <= (r>>12)%3; k++ {
		runtime.Gosched()
	}
}

// Hits returns how many distinct sites were reached (lossy counters).
//
//go:norace
func Hits() (distinct int, total uint64) {
	for _, h := range hits {
		if h > 0 {
			distinct++
			total += uint64(h)
		}
	}
	return
}
`
