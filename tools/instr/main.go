package main

func main() {}
