#!/usr/bin/env python3
"""Writes MANIFEST.json from driver/config.py and driver/manifest_texts.py (keeps it valid by construction)."""
import json, os, sys, subprocess
here = os.path.dirname(os.path.abspath(__file__))
sys.path.insert(0, os.path.join(here, "..", "driver"))
import config, manifest_texts as T

ALL = ["C%02d" % i for i in range(1, 21)]
hooks_commits = subprocess.run(["git", "-C", "/repo", "log", "--format=%h %s", "--grep", "verif hooks"],
                               capture_output=True, text=True).stdout.strip().splitlines()
m = {
    "version": 1,
    "setup_cmd": "./check setup",
    "hooks": {
        "guard": "verif",
        "enable": "go build tag: every engine is built with `-tags verif` against `replace github.com/enbility/ship-go => /repo` "
                  "(hook files: ship/verif_hooks.go, hub/verif_hooks.go, mdns/verif_hooks.go; new files only)",
        "baseline_off_cmd": "/verif/tools/baseline.sh",
        "source_commits": [c.split()[0] for c in hooks_commits],
        "add_only": True,
    },
    "engines": [{"name": k, "path": "/verif/%s/%s" % (v["mod"], v["pkg"][2:]),
                 "serves_properties": sorted(p for p, s in config.PROPS.items() if any(pl["engine"] == k for pl in s["plan"])),
                 "kind_free_text": T.ENGINE_TEXT.get(k, "")} for k, v in config.ENGINES.items()
                if os.path.isdir(os.path.join(here, "..", v["mod"], v["pkg"][2:]))],
    "checks": [],
    "not_applicable": [],
    "notes": T.NOTES,
}
for p in ALL:
    if p in config.PROPS and p in T.CHECK_TEXT:
        s, t = config.PROPS[p], T.CHECK_TEXT[p]
        m["checks"].append({
            "property_id": p,
            "quick_cmd": "./check %s quick" % p,
            "thorough_cmd": "./check %s thorough" % p,
            "evidence_file": "/verif/evidence/%s.json" % p,
            "replay_cmd_template": "./check %s --replay {path}" % p,
            "engine": "+".join(sorted(set(pl["engine"] for pl in s["plan"]))),
            "level_claimed": {"category": s["level"], "text": t["level_text"], "design_ref": t["design_ref"]},
            "level_note": t["level_note"],
            "technique": t["technique"],
        })
    else:
        m["not_applicable"].append({"property_id": p, "reason": T.NOT_CLAIMED.get(p, "check not built yet (work in progress); not claimed")})
json.dump(m, open(os.path.join(here, "..", "MANIFEST.json"), "w"), indent=1)
print("checks:", [c["property_id"] for c in m["checks"]])
