#!/usr/bin/env python3
"""seed_add.py <Cxx> <variant> <detected-by text> : stores a confirmed seeded change under /verif/seeded/<Cxx><variant>/"""
import json, os, shutil, sys, re
pid, v, detected = sys.argv[1], sys.argv[2], sys.argv[3]
src = "/tmp/mut/%s/OUT" % pid
dst = "/verif/seeded/%s%s" % (pid, v)
os.makedirs(dst, exist_ok=True)
shutil.copy("/tmp/vm/%s%s.patch.diff" % (pid, v), dst + "/patch.diff")   # rebased on /repo HEAD by the confirm step
shutil.copy("%s/demo_%s_test.go" % (src, v), dst + "/demo_test.go.txt")
notes = open("%s/notes_%s.md" % (src, v)).read()
confirm = open("/tmp/vm.%s%s.txt" % (pid, v)).read()
meta = {
    "property": pid, "variant": v,
    "source": "written by an independent sub-agent that saw only the property text and a scratch worktree",
    "needs_to_manifest": notes[:3000],
    "confirmed_by_me": {"command": "tools/mutant.sh confirm %s %s (scratch worktree of /repo HEAD: apply, go build ./... && go build -tags verif ./... && go vet ./..., pinned suite vs BASELINE.json, demo with and without the change)" % (pid, v),
                        "output": confirm.strip().splitlines()},
    "checks_run_against_it": detected,
    "repo_head": os.popen("git -C /repo rev-parse --short HEAD").read().strip(),
}
json.dump(meta, open(dst + "/meta.json", "w"), indent=1)
print("stored", dst)
