#!/bin/bash
# Confirms a candidate seeded change and runs checks against it.
#   tools/mutant.sh confirm <Cxx> <variant>      apply OUT/patch_<v>.diff of /tmp/mut/<Cxx> to a scratch worktree of /repo HEAD,
#                                                build, run the pinned suite, run the demo with and without the change
#   tools/mutant.sh check <dir-with-patch.diff> <Cyy> [tier]   run ./check Cyy against /repo HEAD + patch
export GOFLAGS=-mod=mod GOPROXY=off GOSUMDB=off GOTOOLCHAIN=local
set -u
mode=$1
suite() { # $1 = tree ; prints missing baseline tests
  local out; out=$(mktemp /var/tmp/verif.suite.XXXXXX)
  (cd "$1" && go test -json -vet=off -count=1 -timeout 25m ./... > "$out" 2>&1)
  python3 - "$out" <<'PY'
import json,sys
passed=set()
for ln in open(sys.argv[1]):
    try: e=json.loads(ln)
    except Exception: continue
    if e.get("Action")=="pass" and e.get("Test"):
        passed.add(e["Package"]+"::"+e["Test"])
base=json.load(open("/root/.vp/BASELINE.json"))["stable_pass"]
missing=[t for t in base if t not in passed]
print("suite: baseline %d passing %d missing %d %s" % (len(base), len(base)-len(missing), len(missing), missing[:5]))
PY
  rm -f "$out"
}
if [ "$mode" = confirm ]; then
  id=$2; v=$3; src=/tmp/mut/$id/OUT
  wt=/tmp/vm/$id$v; rm -rf "$wt"; git -C /repo worktree prune; mkdir -p /tmp/vm
  git -C /repo worktree add -q "$wt" HEAD || exit 2
  cd "$wt"
  if ! git apply --3way "$src/patch_$v.diff" 2>/tmp/vm/$id$v.apply.log; then echo "APPLY-FAILED $(head -3 /tmp/vm/$id$v.apply.log)"; exit 3; fi
  git reset -q
  git diff > /tmp/vm/$id$v.patch.diff
  echo "patched files: $(git diff --stat | tail -1)"
  (go build ./... && go build -tags verif ./... && go vet ./... ) > /tmp/vm/$id$v.build.log 2>&1 && echo "build+vet: ok" || { echo "build+vet: FAILED"; tail -5 /tmp/vm/$id$v.build.log; }
  suite "$wt"
  pkg=$(head -3 "$src/demo_${v}_test.go" | grep -oE '\b(ship|hub|ws|mdns|cert|api|util)\b' | head -1)
  [ -z "$pkg" ] && pkg=$(grep -m1 '^package ' "$src/demo_${v}_test.go" | awk '{print $2}')
  cp "$src/demo_${v}_test.go" "$wt/$pkg/zz_demo_${v}_test.go"
  names=$(grep -oE '^func (Test[A-Za-z0-9_]+)' "$wt/$pkg/zz_demo_${v}_test.go" | awk '{print $2}' | paste -sd'|')
  race=""; head -5 "$wt/$pkg/zz_demo_${v}_test.go" | grep -q 'needs: -race' && race="-race"
  (cd "$wt" && go test $race -count=1 -run "^($names)\$" ./$pkg > /tmp/vm/$id$v.demo_with.log 2>&1) && echo "demo WITH change: PASS (unexpected)" || echo "demo WITH change: FAIL (expected)"
  git apply -R /tmp/vm/$id$v.patch.diff
  (cd "$wt" && go test $race -count=1 -run "^($names)\$" ./$pkg > /tmp/vm/$id$v.demo_without.log 2>&1) && echo "demo WITHOUT change: PASS (expected)" || { echo "demo WITHOUT change: FAIL (unexpected)"; tail -5 /tmp/vm/$id$v.demo_without.log; }
  rm -f "$wt/$pkg/zz_demo_${v}_test.go"
  cd /; git -C /repo worktree remove --force "$wt"
  exit 0
fi
if [ "$mode" = reconfirm ]; then
  # tools/mutant.sh reconfirm <seeded-name> [patchfile]   re-confirm a stored change (or a re-based patch for it) on /repo HEAD
  name=$2; patch=${3:-/verif/seeded/$name/patch.diff}
  wt=/tmp/vm/re.$name; rm -rf "$wt"; git -C /repo worktree prune; mkdir -p /tmp/vm
  git -C /repo worktree add -q "$wt" HEAD || exit 2
  cd "$wt"
  if ! git apply "$patch" 2>/tmp/vm/re.$name.apply.log; then echo "APPLY-FAILED $(head -3 /tmp/vm/re.$name.apply.log)"; cd /; git -C /repo worktree remove --force "$wt"; exit 3; fi
  echo "patched files: $(git diff --stat | tail -1)"
  (go build ./... && go build -tags verif ./... && go vet ./... ) > /tmp/vm/re.$name.build.log 2>&1 && echo "build+vet: ok" || { echo "build+vet: FAILED"; tail -5 /tmp/vm/re.$name.build.log; }
  suite "$wt"
  demo=/verif/seeded/$name/demo_test.go.txt
  pkg=$(head -3 "$demo" | grep -oE '\b(ship|hub|ws|mdns|cert|api|util)\b' | head -1)
  [ -z "$pkg" ] && pkg=$(grep -m1 '^package ' "$demo" | awk '{print $2}' | sed 's/_test$//')
  race=""; head -5 "$demo" | grep -q 'needs: -race' && race="-race"
  cp "$demo" "$wt/$pkg/zz_demo_test.go"
  names=$(grep -oE '^func (Test[A-Za-z0-9_]+)' "$wt/$pkg/zz_demo_test.go" | awk '{print $2}' | paste -sd'|')
  (cd "$wt" && go test $race -count=1 -run "^($names)\$" ./$pkg > /tmp/vm/re.$name.demo_with.log 2>&1) && echo "demo WITH change: PASS (unexpected)" || echo "demo WITH change: FAIL (expected)"
  git apply -R "$patch"
  (cd "$wt" && go test $race -count=1 -run "^($names)\$" ./$pkg > /tmp/vm/re.$name.demo_without.log 2>&1) && echo "demo WITHOUT change: PASS (expected)" || { echo "demo WITHOUT change: FAIL (unexpected)"; tail -5 /tmp/vm/re.$name.demo_without.log; }
  cd /; git -C /repo worktree remove --force "$wt"
  exit 0
fi
if [ "$mode" = check ]; then
  dir=$2; prop=$3; tier=${4:-quick}
  wt=/tmp/vm/run.$$; mkdir -p /tmp/vm; git -C /repo worktree prune
  git -C /repo worktree add -q "$wt" HEAD || exit 2
  (cd "$wt" && git apply "$dir/patch.diff") || { echo APPLY-FAILED; git -C /repo worktree remove --force "$wt"; exit 3; }
  (cd /verif && VERIF_REPO="$wt" ./check "$prop" "$tier" 2>&1 | grep -E "^VIOLATION|signature=|^OK|^ERROR|^KNOWN" | cut -c1-260 | head -12)
  git -C /repo worktree remove --force "$wt"
fi
