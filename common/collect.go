package verifcommon

import (
	"encoding/json"
	"fmt"
	"os"
	"path/filepath"
	"sort"
	"strconv"
	"strings"
	"sync"
	"sync/atomic"
	"time"
)

// Run describes what the driver asked this engine process to do.
type Run struct {
	Engine    string
	Prop      string // property the driver is deciding (workload focus); monitors of all properties still run
	Tier      string // quick | thorough
	Seed      uint64
	Shard     int
	Shards    int
	Out       string // result file
	ReplayDir string
	Replay    string // replay file to re-execute, if any
	Scale     float64
	Start     time.Time
}

func envInt(name string, def int) int {
	if v := os.Getenv(name); v != "" {
		if n, err := strconv.Atoi(v); err == nil {
			return n
		}
	}
	return def
}

func LoadRun(engine string) *Run {
	r := &Run{
		Engine:    engine,
		Prop:      os.Getenv("VERIF_PROP"),
		Tier:      os.Getenv("VERIF_TIER"),
		Seed:      uint64(envInt("VERIF_SEED", 1)),
		Shard:     envInt("VERIF_SHARD", 0),
		Shards:    envInt("VERIF_SHARDS", 1),
		Out:       os.Getenv("VERIF_OUT"),
		ReplayDir: os.Getenv("VERIF_REPLAY_DIR"),
		Replay:    os.Getenv("VERIF_REPLAY"),
		Scale:     1,
		Start:     time.Now(),
	}
	if r.Tier == "" {
		r.Tier = "quick"
	}
	if v := os.Getenv("VERIF_SCALE"); v != "" {
		if f, err := strconv.ParseFloat(v, 64); err == nil && f > 0 {
			r.Scale = f
		}
	}
	if r.ReplayDir == "" {
		r.ReplayDir = os.TempDir()
	}
	return r
}

// N picks the scenario count for the tier, scaled by VERIF_SCALE.
func (r *Run) N(quick, thorough int) int {
	n := quick
	if r.Tier == "thorough" {
		n = thorough
	}
	n = int(float64(n) * r.Scale)
	if n < 1 {
		n = 1
	}
	return n
}

// Mine reports whether scenario i belongs to this shard.
func (r *Run) Mine(i int) bool { return r.Shards <= 1 || i%r.Shards == r.Shard }

// Violation is one refuting observation.
type Violation struct {
	Prop     string `json:"prop"`
	Sig      string `json:"sig"`
	Detail   string `json:"detail"`
	Scenario string `json:"scenario"`
	Replay   string `json:"replay"`
}

// PropResult is what the monitors of one property observed in this process.
type PropResult struct {
	Evaluations  int64            `json:"evaluations"`
	Classes      map[string]int64 `json:"classes"`  // distinct observation classes -> count
	Counters     map[string]int64 `json:"counters"` // named measurements
	Samples      []any            `json:"samples"`
	Violations   []Violation      `json:"violations"`
	ViolCount    map[string]int64 `json:"viol_count"` // sig -> occurrences (all, also beyond the kept ones)
	Inconclusive map[string]int64 `json:"inconclusive"`
}

type Result struct {
	Engine string                 `json:"engine"`
	Tier   string                 `json:"tier"`
	Seed   uint64                 `json:"seed"`
	Shard  int                    `json:"shard"`
	Shards int                    `json:"shards"`
	WallS  float64                `json:"wall_s"`
	Done   bool                   `json:"done"`
	Props  map[string]*PropResult `json:"props"`
}

// Collector gathers observations; safe for concurrent use.
type Collector struct {
	run *Run
	mu  sync.Mutex
	res Result
}

const maxSamples = 6
const maxViolPerSig = 3

func NewCollector(run *Run) *Collector {
	return &Collector{run: run, res: Result{Engine: run.Engine, Tier: run.Tier, Seed: run.Seed,
		Shard: run.Shard, Shards: run.Shards, Props: map[string]*PropResult{}}}
}

func (c *Collector) p(prop string) *PropResult {
	pr := c.res.Props[prop]
	if pr == nil {
		pr = &PropResult{Classes: map[string]int64{}, Counters: map[string]int64{},
			ViolCount: map[string]int64{}, Inconclusive: map[string]int64{}}
		c.res.Props[prop] = pr
	}
	return pr
}

func (c *Collector) Eval(prop string, n int) {
	c.mu.Lock()
	c.p(prop).Evaluations += int64(n)
	c.mu.Unlock()
}

func (c *Collector) Class(prop, key string) {
	c.mu.Lock()
	c.p(prop).Classes[key]++
	c.mu.Unlock()
}

func (c *Collector) Count(prop, name string, n int) {
	c.mu.Lock()
	c.p(prop).Counters[name] += int64(n)
	c.mu.Unlock()
}

func (c *Collector) Sample(prop string, v any) {
	c.mu.Lock()
	pr := c.p(prop)
	if len(pr.Samples) < maxSamples {
		pr.Samples = append(pr.Samples, v)
	}
	c.mu.Unlock()
}

func (c *Collector) WantSample(prop string) bool {
	c.mu.Lock()
	defer c.mu.Unlock()
	return len(c.p(prop).Samples) < maxSamples
}

func (c *Collector) Inconclusive(prop, why string) {
	c.mu.Lock()
	c.p(prop).Inconclusive[why]++
	c.mu.Unlock()
}

var replaySeq atomic.Int64

func sanitize(s string) string {
	var b strings.Builder
	for _, r := range s {
		if r >= 'a' && r <= 'z' || r >= 'A' && r <= 'Z' || r >= '0' && r <= '9' || r == '-' || r == '_' || r == '.' {
			b.WriteRune(r)
		} else {
			b.WriteByte('_')
		}
	}
	out := b.String()
	if len(out) > 80 {
		out = out[:80]
	}
	return out
}

// Violation records a refuting observation; witness is written to a replay file.
func (c *Collector) Violation(prop, sig, detail, scenario string, witness any) {
	c.mu.Lock()
	defer c.mu.Unlock()
	pr := c.p(prop)
	pr.ViolCount[sig]++
	if pr.ViolCount[sig] > maxViolPerSig {
		return
	}
	name := fmt.Sprintf("%s-%s-s%d-%d.json", prop, sanitize(scenario), c.run.Seed, replaySeq.Add(1))
	path := filepath.Join(c.run.ReplayDir, name)
	w := map[string]any{"property": prop, "engine": c.run.Engine, "seed": c.run.Seed, "tier": c.run.Tier,
		"scenario": scenario, "signature": sig, "detail": detail, "witness": witness}
	if b, err := json.MarshalIndent(w, "", " "); err == nil {
		_ = os.MkdirAll(c.run.ReplayDir, 0o755)
		_ = os.WriteFile(path, b, 0o644)
	}
	pr.Violations = append(pr.Violations, Violation{Prop: prop, Sig: sig, Detail: detail, Scenario: scenario, Replay: path})
}

// Write stores the result file (atomically); call at the end and periodically.
func (c *Collector) Write(done bool) {
	c.mu.Lock()
	defer c.mu.Unlock()
	c.res.Done = done
	c.res.WallS = time.Since(c.run.Start).Seconds()
	if c.run.Out == "" {
		b, _ := json.MarshalIndent(c.summaryLocked(), "", " ")
		fmt.Println(string(b))
		return
	}
	b, err := json.Marshal(&c.res)
	if err != nil {
		fmt.Fprintln(os.Stderr, "result marshal:", err)
		return
	}
	tmp := c.run.Out + ".tmp"
	if err := os.WriteFile(tmp, b, 0o644); err == nil {
		_ = os.Rename(tmp, c.run.Out)
	}
}

func (c *Collector) summaryLocked() map[string]any {
	out := map[string]any{}
	var props []string
	for k := range c.res.Props {
		props = append(props, k)
	}
	sort.Strings(props)
	for _, k := range props {
		pr := c.res.Props[k]
		out[k] = map[string]any{"evaluations": pr.Evaluations, "classes": len(pr.Classes),
			"violations": pr.ViolCount, "inconclusive": pr.Inconclusive, "counters": pr.Counters}
	}
	return out
}

// Scn logs the scenario id before it starts so that a process-fatal failure is attributable.
func Scn(id string) {
	fmt.Fprintf(os.Stderr, "SCN %s\n", id)
}
