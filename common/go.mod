module verifcommon

go 1.22
