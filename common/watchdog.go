package verifcommon

import (
	"fmt"
	"os"
	"regexp"
	"runtime"
	"strings"
	"sync"
	"time"
)

// Watchdog observes, from outside any synctest bubble, whether the current scenario still makes
// progress in real time. A goroutine waiting for a sync.Mutex/sync.Once is not "durably blocked"
// for synctest, so a library call that deadlocks on a mutex freezes the bubble for good. The
// watchdog decides from two goroutine dumps taken some seconds apart: if the same goroutine waits
// at the same library frame for a lock in both and nothing in the process is running library or
// harness code, the call is wedged (a violation with the stack as witness); otherwise the scenario
// was merely slow and the verdict is inconclusive. Either way the process exits with status 7 and
// the driver restarts the shard after this scenario.
type Watchdog struct {
	col   *Collector
	limit time.Duration
	mu    sync.Mutex
	scn   string
	op    string
	wit   func() any
	since time.Time
	gen   int64
	// Attribute maps the operation in progress to the property a wedge is reported under.
	Attribute func(op string) string
	// NoVerdict: operations for which an exceeded limit is only reported as inconclusive
	NoVerdict func(op string) bool
}

func NewWatchdog(col *Collector, limit time.Duration) *Watchdog {
	w := &Watchdog{col: col, limit: limit}
	go w.loop()
	return w
}

func (w *Watchdog) Begin(scn string, wit func() any) {
	w.mu.Lock()
	w.scn, w.wit, w.since, w.op = scn, wit, time.Now(), ""
	w.gen++
	w.mu.Unlock()
}

func (w *Watchdog) Op(op string) {
	w.mu.Lock()
	w.op = op
	w.mu.Unlock()
}

func (w *Watchdog) End() {
	w.mu.Lock()
	w.scn = ""
	w.gen++
	w.mu.Unlock()
}

var goroutineHdr = regexp.MustCompile(`(?m)^goroutine (\d+) \[([^\]]*)\]:`)

type gInfo struct {
	id, state, libFrame string
	stack               string
}

func dump() map[string]gInfo {
	buf := make([]byte, 8<<20)
	n := runtime.Stack(buf, true)
	out := map[string]gInfo{}
	for _, blk := range strings.Split(string(buf[:n]), "\n\n") {
		m := goroutineHdr.FindStringSubmatch(blk)
		if m == nil {
			continue
		}
		g := gInfo{id: m[1], state: m[2], stack: blk}
		for _, ln := range strings.Split(blk, "\n") {
			if strings.HasPrefix(ln, "github.com/enbility/ship-go/") && !strings.Contains(ln, "verifrt") {
				g.libFrame = strings.TrimPrefix(ln[:strings.LastIndex(ln, "(")], "github.com/enbility/ship-go/")
				break
			}
		}
		out[g.id] = g
	}
	return out
}

func lockWait(state string) bool {
	return strings.HasPrefix(state, "sync.Mutex.Lock") || strings.HasPrefix(state, "sync.RWMutex") ||
		strings.HasPrefix(state, "semacquire") || strings.HasPrefix(state, "sync.WaitGroup")
}

func (w *Watchdog) loop() {
	for {
		time.Sleep(time.Second)
		w.mu.Lock()
		scn, since, gen, op, wit := w.scn, w.since, w.gen, w.op, w.wit
		w.mu.Unlock()
		if scn == "" || time.Since(since) < w.limit {
			continue
		}
		d1 := dump()
		time.Sleep(3 * time.Second)
		w.mu.Lock()
		same := w.gen == gen
		w.mu.Unlock()
		if !same {
			continue
		}
		d2 := dump()
		var wedged []gInfo
		busy := false
		for id, g2 := range d2 {
			g1, ok := d1[id]
			if !ok {
				continue
			}
			if g2.libFrame != "" && lockWait(g2.state) && lockWait(g1.state) && g1.libFrame == g2.libFrame {
				wedged = append(wedged, g2)
			}
			if strings.HasPrefix(g2.state, "running") || strings.HasPrefix(g2.state, "runnable") {
				if g2.libFrame != "" || strings.Contains(g2.stack, "verif/") && !strings.Contains(g2.stack, "Watchdog") {
					busy = true
				}
			}
		}
		prop := "C08"
		if w.Attribute != nil {
			prop = w.Attribute(op)
		}
		var witness any
		if wit != nil {
			witness = wit()
		}
		if w.NoVerdict != nil && w.NoVerdict(op) {
			// operations whose duration depends on the outside world (real sockets): never a wedge verdict
			w.col.Inconclusive(prop, "watchdog:slow-scenario:"+strings.SplitN(op, ":", 2)[0])
			fmt.Fprintf(os.Stderr, "SLOW %s op=%s\n", scn, op)
			w.col.Write(false)
			os.Exit(7)
		}
		if len(wedged) > 0 && !busy {
			fn := wedged[0].libFrame
			var stacks []string
			for _, g := range wedged {
				stacks = append(stacks, g.stack)
			}
			w.col.Violation(prop, "wedge:"+fn, fmt.Sprintf("operation %q never returned: goroutine blocked on a lock inside %s", op, fn),
				scn, map[string]any{"scenario": witness, "blocked": stacks})
			fmt.Fprintf(os.Stderr, "WEDGE %s op=%s in %s\n", scn, op, fn)
		} else {
			w.col.Inconclusive(prop, "watchdog:slow-scenario")
			fmt.Fprintf(os.Stderr, "SLOW %s op=%s\n", scn, op)
		}
		w.col.Write(false)
		os.Exit(7)
	}
}
