// Package verifcommon holds what every runtime-monitoring engine shares:
// the seed-determined PRNG, the result collector and small helpers.
package verifcommon

import "hash/fnv"

// Rand is a splitmix64 generator. Scenario i of engine E under seed S uses
// NewRand(S, E, i): the case list is a function of the seed only.
type Rand struct{ s uint64 }

func mix(z uint64) uint64 {
	z += 0x9e3779b97f4a7c15
	z = (z ^ (z >> 30)) * 0xbf58476d1ce4e5b9
	z = (z ^ (z >> 27)) * 0x94d049bb133111eb
	return z ^ (z >> 31)
}

func hashStr(s string) uint64 {
	h := fnv.New64a()
	_, _ = h.Write([]byte(s))
	return h.Sum64()
}

func NewRand(seed uint64, engine string, i uint64) *Rand {
	return &Rand{s: mix(mix(seed)^hashStr(engine)) ^ mix(i*0x9e3779b97f4a7c15+1)}
}

func (r *Rand) Uint64() uint64 {
	r.s += 0x9e3779b97f4a7c15
	z := r.s
	z = (z ^ (z >> 30)) * 0xbf58476d1ce4e5b9
	z = (z ^ (z >> 27)) * 0x94d049bb133111eb
	return z ^ (z >> 31)
}

// Intn returns a value in [0,n); n<=0 gives 0.
func (r *Rand) Intn(n int) int {
	if n <= 0 {
		return 0
	}
	return int(r.Uint64() % uint64(n))
}

// Range returns a value in [lo,hi].
func (r *Rand) Range(lo, hi int) int {
	if hi <= lo {
		return lo
	}
	return lo + r.Intn(hi-lo+1)
}

func (r *Rand) Bool() bool { return r.Uint64()&1 == 1 }

// Chance is true with probability num/den.
func (r *Rand) Chance(num, den int) bool { return r.Intn(den) < num }

func (r *Rand) Float() float64 { return float64(r.Uint64()>>11) / float64(1<<53) }

func (r *Rand) Bytes(n int) []byte {
	b := make([]byte, n)
	for i := range b {
		b[i] = byte(r.Uint64())
	}
	return b
}

// Fork derives an independent generator.
func (r *Rand) Fork(label string) *Rand {
	return &Rand{s: mix(r.Uint64() ^ hashStr(label))}
}

func Pick[T any](r *Rand, xs []T) T {
	return xs[r.Intn(len(xs))]
}

func Shuffle[T any](r *Rand, xs []T) {
	for i := len(xs) - 1; i > 0; i-- {
		j := r.Intn(i + 1)
		xs[i], xs[j] = xs[j], xs[i]
	}
}
