package jdoc

import (
	"fmt"
	"sort"
	"strconv"
	"strings"
	"unicode/utf8"

	vc "verifcommon"
)

// An independent JSON document model: member order kept, number literals kept as text,
// strings kept by decoded value. Used as generator, reference transform and oracle.

type Kind int

const (
	KObj Kind = iota
	KArr
	KStr
	KNum
	KBool
	KNull
)

type Member struct {
	Name string
	V    *Node
}

type Node struct {
	K     Kind
	Mem   []Member
	Elems []*Node
	S     string // decoded string value
	Lit   string // number literal / true / false
}

// ---- serialisation -------------------------------------------------------------------------

type writer struct {
	r  *vc.Rand // nil: canonical escapes only
	sb strings.Builder
}

func (w *writer) str(s string) {
	w.sb.WriteByte('"')
	for _, r := range s {
		switch {
		case r == '"':
			w.sb.WriteString(`\"`)
		case r == '\\':
			w.sb.WriteString(`\\`)
		case r < 0x20:
			short := map[rune]string{'\n': `\n`, '\r': `\r`, '\t': `\t`, '\b': `\b`, '\f': `\f`}
			if s, ok := short[r]; ok && (w.r == nil || w.r.Bool()) {
				w.sb.WriteString(s)
			} else {
				fmt.Fprintf(&w.sb, `\u%04x`, r)
			}
		case r == '/' && w.r != nil && w.r.Chance(1, 4):
			w.sb.WriteString(`\/`)
		case w.r != nil && w.r.Chance(1, 12):
			if r > 0xffff {
				r -= 0x10000
				fmt.Fprintf(&w.sb, `\u%04x\u%04x`, 0xd800+(r>>10), 0xdc00+(r&0x3ff))
			} else {
				fmt.Fprintf(&w.sb, `\u%04X`, r)
			}
		default:
			w.sb.WriteRune(r)
		}
	}
	w.sb.WriteByte('"')
}

func (w *writer) ws() {
	if w.r != nil && w.r.Chance(1, 10) {
		w.sb.WriteString(vc.Pick(w.r, []string{" ", "\n", "\t", "  "}))
	}
}

func (w *writer) node(n *Node) {
	switch n.K {
	case KObj:
		w.sb.WriteByte('{')
		for i, m := range n.Mem {
			if i > 0 {
				w.sb.WriteByte(',')
			}
			w.ws()
			w.str(m.Name)
			w.ws()
			w.sb.WriteByte(':')
			w.ws()
			w.node(m.V)
		}
		w.ws()
		w.sb.WriteByte('}')
	case KArr:
		w.sb.WriteByte('[')
		for i, e := range n.Elems {
			if i > 0 {
				w.sb.WriteByte(',')
			}
			w.ws()
			w.node(e)
		}
		w.ws()
		w.sb.WriteByte(']')
	case KStr:
		w.str(n.S)
	case KNum, KBool:
		w.sb.WriteString(n.Lit)
	case KNull:
		w.sb.WriteString("null")
	}
}

// Text renders the node; with r != nil escapes and whitespace are varied.
func Text(n *Node, r *vc.Rand) string {
	w := &writer{r: r}
	w.node(n)
	return w.sb.String()
}

// ---- strict parser -------------------------------------------------------------------------

type parser struct {
	b []byte
	i int
}

func Parse(b []byte) (*Node, error) {
	p := &parser{b: b}
	p.skip()
	n, err := p.value(0)
	if err != nil {
		return nil, err
	}
	p.skip()
	if p.i != len(p.b) {
		return nil, fmt.Errorf("trailing data at %d", p.i)
	}
	return n, nil
}

func (p *parser) skip() {
	for p.i < len(p.b) && (p.b[p.i] == ' ' || p.b[p.i] == '\n' || p.b[p.i] == '\t' || p.b[p.i] == '\r') {
		p.i++
	}
}

func (p *parser) value(depth int) (*Node, error) {
	if depth > 200 {
		return nil, fmt.Errorf("too deep")
	}
	if p.i >= len(p.b) {
		return nil, fmt.Errorf("unexpected end")
	}
	switch c := p.b[p.i]; {
	case c == '{':
		p.i++
		n := &Node{K: KObj}
		p.skip()
		if p.i < len(p.b) && p.b[p.i] == '}' {
			p.i++
			return n, nil
		}
		for {
			p.skip()
			if p.i >= len(p.b) || p.b[p.i] != '"' {
				return nil, fmt.Errorf("member name expected at %d", p.i)
			}
			name, err := p.str()
			if err != nil {
				return nil, err
			}
			p.skip()
			if p.i >= len(p.b) || p.b[p.i] != ':' {
				return nil, fmt.Errorf("colon expected at %d", p.i)
			}
			p.i++
			p.skip()
			v, err := p.value(depth + 1)
			if err != nil {
				return nil, err
			}
			n.Mem = append(n.Mem, Member{Name: name, V: v})
			p.skip()
			if p.i < len(p.b) && p.b[p.i] == ',' {
				p.i++
				continue
			}
			if p.i < len(p.b) && p.b[p.i] == '}' {
				p.i++
				return n, nil
			}
			return nil, fmt.Errorf("',' or '}' expected at %d", p.i)
		}
	case c == '[':
		p.i++
		n := &Node{K: KArr}
		p.skip()
		if p.i < len(p.b) && p.b[p.i] == ']' {
			p.i++
			return n, nil
		}
		for {
			p.skip()
			v, err := p.value(depth + 1)
			if err != nil {
				return nil, err
			}
			n.Elems = append(n.Elems, v)
			p.skip()
			if p.i < len(p.b) && p.b[p.i] == ',' {
				p.i++
				continue
			}
			if p.i < len(p.b) && p.b[p.i] == ']' {
				p.i++
				return n, nil
			}
			return nil, fmt.Errorf("',' or ']' expected at %d", p.i)
		}
	case c == '"':
		s, err := p.str()
		if err != nil {
			return nil, err
		}
		return &Node{K: KStr, S: s}, nil
	case c == 't' && strings.HasPrefix(string(p.b[p.i:]), "true"):
		p.i += 4
		return &Node{K: KBool, Lit: "true"}, nil
	case c == 'f' && strings.HasPrefix(string(p.b[p.i:]), "false"):
		p.i += 5
		return &Node{K: KBool, Lit: "false"}, nil
	case c == 'n' && strings.HasPrefix(string(p.b[p.i:]), "null"):
		p.i += 4
		return &Node{K: KNull}, nil
	case c == '-' || (c >= '0' && c <= '9'):
		st := p.i
		if p.b[p.i] == '-' {
			p.i++
		}
		digits := func() int {
			k := 0
			for p.i < len(p.b) && p.b[p.i] >= '0' && p.b[p.i] <= '9' {
				p.i++
				k++
			}
			return k
		}
		if p.i < len(p.b) && p.b[p.i] == '0' {
			p.i++
		} else if digits() == 0 {
			return nil, fmt.Errorf("bad number at %d", st)
		}
		if p.i < len(p.b) && p.b[p.i] == '.' {
			p.i++
			if digits() == 0 {
				return nil, fmt.Errorf("bad fraction at %d", st)
			}
		}
		if p.i < len(p.b) && (p.b[p.i] == 'e' || p.b[p.i] == 'E') {
			p.i++
			if p.i < len(p.b) && (p.b[p.i] == '+' || p.b[p.i] == '-') {
				p.i++
			}
			if digits() == 0 {
				return nil, fmt.Errorf("bad exponent at %d", st)
			}
		}
		return &Node{K: KNum, Lit: string(p.b[st:p.i])}, nil
	}
	return nil, fmt.Errorf("unexpected byte %q at %d", p.b[p.i], p.i)
}

func (p *parser) hex4() (rune, error) {
	if p.i+4 > len(p.b) {
		return 0, fmt.Errorf("short \\u escape")
	}
	v, err := strconv.ParseUint(string(p.b[p.i:p.i+4]), 16, 32)
	if err != nil {
		return 0, err
	}
	p.i += 4
	return rune(v), nil
}

func (p *parser) str() (string, error) {
	p.i++ // opening quote
	var sb strings.Builder
	for {
		if p.i >= len(p.b) {
			return "", fmt.Errorf("unterminated string")
		}
		c := p.b[p.i]
		switch {
		case c == '"':
			p.i++
			return sb.String(), nil
		case c == '\\':
			p.i++
			if p.i >= len(p.b) {
				return "", fmt.Errorf("unterminated escape")
			}
			e := p.b[p.i]
			p.i++
			switch e {
			case '"', '\\', '/':
				sb.WriteByte(e)
			case 'b':
				sb.WriteByte('\b')
			case 'f':
				sb.WriteByte('\f')
			case 'n':
				sb.WriteByte('\n')
			case 'r':
				sb.WriteByte('\r')
			case 't':
				sb.WriteByte('\t')
			case 'u':
				r, err := p.hex4()
				if err != nil {
					return "", err
				}
				if r >= 0xd800 && r < 0xdc00 && p.i+6 <= len(p.b) && p.b[p.i] == '\\' && p.b[p.i+1] == 'u' {
					save := p.i
					p.i += 2
					r2, err := p.hex4()
					if err == nil && r2 >= 0xdc00 && r2 < 0xe000 {
						r = 0x10000 + (r-0xd800)<<10 + (r2 - 0xdc00)
					} else {
						p.i = save
						r = utf8.RuneError
					}
				} else if r >= 0xd800 && r < 0xe000 {
					r = utf8.RuneError
				}
				sb.WriteRune(r)
			default:
				return "", fmt.Errorf("bad escape \\%c", e)
			}
		case c < 0x20:
			return "", fmt.Errorf("control byte in string at %d", p.i)
		default:
			r, sz := utf8.DecodeRune(p.b[p.i:])
			if r == utf8.RuneError && sz == 1 {
				return "", fmt.Errorf("invalid utf-8 at %d", p.i)
			}
			sb.WriteRune(r)
			p.i += sz
		}
	}
}

// ---- comparison, reference transform, classification ------------------------------------------

// Equal compares two documents: same structure, member order, number literal text, decoded strings.
// With relaxEmpty an empty array and an empty object are considered equal.
func Equal(a, b *Node, relaxEmpty bool) (bool, string) {
	return eq(a, b, relaxEmpty, "$")
}

func isEmptyContainer(n *Node) bool {
	return (n.K == KObj && len(n.Mem) == 0) || (n.K == KArr && len(n.Elems) == 0)
}

func eq(a, b *Node, relax bool, path string) (bool, string) {
	if relax && isEmptyContainer(a) && isEmptyContainer(b) {
		return true, ""
	}
	if a.K != b.K {
		return false, fmt.Sprintf("%s: kind %d vs %d", path, a.K, b.K)
	}
	switch a.K {
	case KObj:
		if len(a.Mem) != len(b.Mem) {
			return false, fmt.Sprintf("%s: %d vs %d members", path, len(a.Mem), len(b.Mem))
		}
		for i := range a.Mem {
			if a.Mem[i].Name != b.Mem[i].Name {
				return false, fmt.Sprintf("%s: member %d name %q vs %q", path, i, a.Mem[i].Name, b.Mem[i].Name)
			}
			if ok, d := eq(a.Mem[i].V, b.Mem[i].V, relax, path+"."+a.Mem[i].Name); !ok {
				return false, d
			}
		}
	case KArr:
		if len(a.Elems) != len(b.Elems) {
			return false, fmt.Sprintf("%s: %d vs %d elements", path, len(a.Elems), len(b.Elems))
		}
		for i := range a.Elems {
			if ok, d := eq(a.Elems[i], b.Elems[i], relax, fmt.Sprintf("%s[%d]", path, i)); !ok {
				return false, d
			}
		}
	case KStr:
		if a.S != b.S {
			return false, fmt.Sprintf("%s: string %q vs %q", path, a.S, b.S)
		}
	case KNum, KBool:
		if a.Lit != b.Lit {
			return false, fmt.Sprintf("%s: literal %s vs %s", path, a.Lit, b.Lit)
		}
	}
	return true, ""
}

// Shape is the reference transform T: every object becomes an array of single-member objects.
func Shape(n *Node) *Node {
	switch n.K {
	case KObj:
		out := &Node{K: KArr}
		for _, m := range n.Mem {
			out.Elems = append(out.Elems, &Node{K: KObj, Mem: []Member{{Name: m.Name, V: Shape(m.V)}}})
		}
		return out
	case KArr:
		out := &Node{K: KArr}
		for _, e := range n.Elems {
			out.Elems = append(out.Elems, Shape(e))
		}
		return out
	}
	return n
}

var bracketSeqs = []string{"[{", "},{", "}]", "[]"}

func hasBracketSeq(s string) bool {
	for _, q := range bracketSeqs {
		if strings.Contains(s, q) {
			return true
		}
	}
	return false
}

// Features classifies a document; the sorted feature set is its observation class.
func Features(n *Node) []string {
	f := map[string]bool{}
	if n.K == KObj && len(n.Mem) == 0 {
		f["empty-top-object"] = true
	}
	var walk func(n *Node, depth int, parent Kind)
	maxDepth := 0
	walk = func(n *Node, depth int, parent Kind) {
		if depth > maxDepth {
			maxDepth = depth
		}
		switch n.K {
		case KObj:
			if len(n.Mem) == 0 && depth > 0 {
				f["empty-object"] = true
			}
			if parent == KArr {
				f["array-of-objects"] = true
			}
			if len(n.Mem) > 1 {
				f["multi-member"] = true
			}
			for _, m := range n.Mem {
				if hasBracketSeq(m.Name) {
					f["name-bracket-seq"] = true
				}
				if strings.ContainsAny(m.Name, "[]{},:\"\\") {
					f["name-special"] = true
				}
				walk(m.V, depth+1, KObj)
			}
		case KArr:
			if len(n.Elems) == 0 {
				f["empty-array"] = true
			}
			if parent == KArr {
				f["nested-array"] = true
			}
			for _, e := range n.Elems {
				walk(e, depth+1, KArr)
			}
		case KStr:
			if hasBracketSeq(n.S) {
				f["string-bracket-seq"] = true
			} else if strings.ContainsAny(n.S, "[]{},") {
				f["string-brackets"] = true
			}
			if strings.ContainsAny(n.S, "\"\\") {
				f["string-quote-backslash"] = true
			}
			for _, r := range n.S {
				if r < 0x20 {
					f["string-control"] = true
				} else if r > 0xffff {
					f["string-astral"] = true
				} else if r > 0x7f {
					f["string-multibyte"] = true
				}
			}
			if n.S == "" {
				f["string-empty"] = true
			}
		case KNum:
			if strings.ContainsAny(n.Lit, "eE") {
				f["num-exponent"] = true
			}
			if len(strings.TrimLeft(n.Lit, "-")) > 16 {
				f["num-big"] = true
			}
			if strings.Contains(n.Lit, ".") && strings.HasSuffix(n.Lit, "0") {
				f["num-trailing-zero"] = true
			}
			if n.Lit == "-0" || strings.HasPrefix(n.Lit, "-0.") {
				f["num-negzero"] = true
			}
		case KBool:
			f["bool"] = true
		case KNull:
			f["null"] = true
		}
	}
	walk(n, 0, KNull)
	if maxDepth >= 4 {
		f["deep"] = true
	}
	out := make([]string, 0, len(f))
	for k := range f {
		out = append(out, k)
	}
	sort.Strings(out)
	return out
}

// ---- generator -------------------------------------------------------------------------------

type GenOpts struct {
	NoEmptyArray bool
	NoBracketSeq bool
	MaxDepth     int
	MaxWidth     int
}

var strAlphabet = []string{"a", "b", "Z", "0", " ", "[", "]", "{", "}", ",", ":", "\"", "\\", "/", "\n", "\t", "\u0001",
	"ä", "€", "日", "😀", " ", "[{", "},{", "}]", "[]", "{}", "\"}", "]\"", "datagram", "\x7f", "<", "&"}

func genString(r *vc.Rand, o GenOpts) string {
	if r.Chance(1, 10) {
		return ""
	}
	n := r.Range(1, 8)
	var sb strings.Builder
	for i := 0; i < n; i++ {
		sb.WriteString(vc.Pick(r, strAlphabet))
	}
	s := sb.String()
	if o.NoBracketSeq {
		for hasBracketSeq(s) {
			for _, q := range bracketSeqs {
				s = strings.ReplaceAll(s, q, "_")
			}
		}
	}
	return s
}

func genNumber(r *vc.Rand) string {
	var sb strings.Builder
	if r.Chance(1, 4) {
		sb.WriteByte('-')
	}
	switch r.Intn(5) {
	case 0:
		sb.WriteByte('0')
	case 1:
		sb.WriteString(strconv.Itoa(r.Range(1, 999)))
	case 2: // beyond 2^53
		sb.WriteString(strconv.Itoa(r.Range(1, 9)))
		for i := 0; i < r.Range(16, 30); i++ {
			sb.WriteByte(byte('0' + r.Intn(10)))
		}
	default:
		sb.WriteString(strconv.Itoa(r.Range(1, 99999)))
	}
	if r.Chance(1, 3) {
		sb.WriteByte('.')
		for i := 0; i < r.Range(1, 4); i++ {
			sb.WriteByte(byte('0' + r.Intn(10)))
		}
		if r.Chance(1, 3) {
			sb.WriteByte('0')
		}
	}
	if r.Chance(1, 6) {
		sb.WriteString(vc.Pick(r, []string{"e", "E"}))
		sb.WriteString(vc.Pick(r, []string{"", "+", "-"}))
		sb.WriteString(strconv.Itoa(r.Range(0, 40)))
	}
	return sb.String()
}

func GenValue(r *vc.Rand, o GenOpts, depth int) *Node {
	c := r.Intn(12)
	if depth >= o.MaxDepth && c < 5 {
		c = 5 + r.Intn(7)
	}
	switch {
	case c < 3:
		return genObject(r, o, depth)
	case c < 5:
		n := &Node{K: KArr}
		w := r.Intn(o.MaxWidth + 1)
		if w == 0 && o.NoEmptyArray {
			w = 1
		}
		homog := r.Intn(3)
		for i := 0; i < w; i++ {
			switch homog {
			case 0:
				n.Elems = append(n.Elems, genObject(r, o, depth+1))
			default:
				n.Elems = append(n.Elems, GenValue(r, o, depth+1))
			}
		}
		return n
	case c < 8:
		return &Node{K: KStr, S: genString(r, o)}
	case c < 10:
		return &Node{K: KNum, Lit: genNumber(r)}
	case c < 11:
		return &Node{K: KBool, Lit: vc.Pick(r, []string{"true", "false"})}
	}
	return &Node{K: KNull}
}

func genObject(r *vc.Rand, o GenOpts, depth int) *Node {
	n := &Node{K: KObj}
	w := r.Intn(o.MaxWidth + 1)
	if depth == 0 && w == 0 && !r.Chance(1, 50) {
		w = 1
	}
	seen := map[string]bool{}
	for i := 0; i < w; i++ {
		var name string
		if r.Chance(1, 6) {
			name = genString(r, o)
		} else {
			name = vc.Pick(r, []string{"a", "b", "c", "datagram", "header", "payload", "cmd", "data", "x1", "value", "list"})
		}
		if seen[name] {
			name = fmt.Sprintf("%s%d", name, i)
		}
		if seen[name] {
			continue
		}
		seen[name] = true
		var v *Node
		if depth >= o.MaxDepth {
			v = GenValue(r, o, o.MaxDepth)
		} else {
			v = GenValue(r, o, depth+1)
		}
		n.Mem = append(n.Mem, Member{Name: name, V: v})
	}
	return n
}

// GenDoc generates a document whose top level is an object.
func GenDoc(r *vc.Rand, o GenOpts) *Node {
	if o.MaxDepth == 0 {
		o.MaxDepth = r.Range(1, 6)
	}
	if o.MaxWidth == 0 {
		o.MaxWidth = r.Range(1, 6)
	}
	return genObject(r, o, 0)
}
