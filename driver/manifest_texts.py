ENGINE_TEXT = {
    "pure": "seeded generators + independent reference oracles over the pure functions (EEBUS JSON transform, mDNS TXT/QR, certificate generator)",
    "hubnet": "real hubs over loopback TLS/websocket with a fake mDNS bus, TCP proxies and adversarial peers; monitors over API call/return and callback logs; race detector",
    "shipsim1": "one real ShipConnection inside a testing/synctest bubble (virtual time), harness = peer + transport + user; monitors over the event log",
    "shipsim2": "two real ShipConnections joined by harness-owned FIFO queues inside a synctest bubble; seeded interleavings of deliveries, approvals, closes and timer expiries",
    "wsconn": "real ws.WebsocketConnection over a fault-injecting net.Conn with a raw websocket peer; bubble mode and real-time multi-writer mode; porcupine history check",
    "timers": "arm/stop programs on real connections in a synctest bubble; timeout deliveries compared with the armed-and-unstopped timers",
    "mdnssim": "real MdnsManager / AvahiProvider against fake provider / scripted fake Avahi daemon in a synctest bubble; reference model comparison",
}
NOTES = ("Technique family: runtime monitoring. Every verdict comes from executing /repo's current working tree (built with -tags verif) "
         "under generated workloads while monitors check the recorded events; see DESIGN.md.")
NOT_CLAIMED = {}
CHECK_TEXT = {
    "C07": {
        "technique": "runtime oracle over generated inputs: independent JSON model (order/number-text/decoded-string equality) + reference shape transform",
        "level_text": "Held on every generated document of the run (200k quick / 5M thorough) except the two recorded input classes; "
                      "exploration of the input space by a seeded grammar generator and mutated real datagrams, not a proof.",
        "level_note": "Trusts the harness's own JSON parser/serialiser (jsonast.go) as reference; documents <= depth 6 / width 6; no duplicate member names, no lone surrogates.",
        "design_ref": "DESIGN.md 6 C07",
    },
    "C16": {
        "technique": "runtime round-trip oracle: announced TXT captured at a fake provider -> library parser -> second manager's entry; independent strict QR parser",
        "level_text": "Held on every generated configuration of the run (50k quick / 2M thorough); exploration with a generator aimed at the 32-byte boundary, '=', ';', ':' and multi-byte runes.",
        "level_note": "MdnsManager.Start's provider selection is replaced by the VerifAttach hook; configurations with invalid UTF-8 are only checked for truncation and crashes (outside the quantifier).",
        "design_ref": "DESIGN.md 6 C16",
    },
}
