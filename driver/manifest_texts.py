ENGINE_TEXT = {
    "pure": "seeded generators + independent reference oracles over the pure functions (EEBUS JSON transform, mDNS TXT/QR, certificate generator)",
    "hubnet": "real hubs over loopback TLS/websocket with a fake mDNS bus, TCP proxies and adversarial peers; monitors over API call/return and callback logs; race detector",
    "shipsim1": "one real ShipConnection inside a testing/synctest bubble (virtual time), harness = peer + transport + user; monitors over the event log",
    "shipsim2": "two real ShipConnections joined by harness-owned FIFO queues inside a synctest bubble; seeded interleavings of deliveries, approvals, closes and timer expiries",
    "wsconn": "real ws.WebsocketConnection over a fault-injecting net.Conn with a raw websocket peer; bubble mode and real-time multi-writer mode; porcupine history check",
    "timers": "arm/stop programs on real connections in a synctest bubble; timeout deliveries compared with the armed-and-unstopped timers",
    "mdnssim": "real MdnsManager / AvahiProvider against fake provider / scripted fake Avahi daemon in a synctest bubble; reference model comparison",
}
NOTES = ("Technique family: runtime monitoring. Every verdict comes from executing /repo's current working tree (built with -tags verif) "
         "under generated workloads while monitors check the recorded events; see DESIGN.md.")
NOT_CLAIMED = {}
CHECK_TEXT = {
    "C07": {
        "technique": "runtime oracle over generated inputs: independent JSON model (order/number-text/decoded-string equality) + reference shape transform; end to end: generated documents as SPINE payloads between two real completed connections, reader output compared with what was sent",
        "level_text": "Held on every generated document of the run (about 235k quick / 23M thorough incl. the end-to-end payloads; the evidence file has the exact numbers) except the two recorded input classes; "
                      "exploration of the input space by a seeded grammar generator and mutated real datagrams, not a proof.",
        "level_note": "Trusts the harness's own JSON parser/serialiser (common/jdoc) as reference; documents <= depth 6 / width 6; no duplicate member names, no lone surrogates.",
        "design_ref": "DESIGN.md 6 C07",
    },
    "C16": {
        "technique": "runtime round-trip oracle: announced TXT captured at a fake provider -> library parser -> second manager's entry; independent strict QR parser; histories of auto-accept changes / unannounce / announce / failing announce with a check after every announcement",
        "level_text": "Held on every generated configuration of the run (50k quick / 20M thorough); exploration with a generator aimed at the 32-byte boundary, '=', ';', ':' and multi-byte runes.",
        "level_note": "MdnsManager.Start's provider selection is replaced by the VerifAttach hook; configurations with invalid UTF-8 are only checked for truncation and crashes (outside the quantifier).",
        "design_ref": "DESIGN.md 6 C16",
    },
    "C01": {
        "technique": "runtime monitor over event logs of real ShipConnections in synctest bubbles (virtual time): trust-grant oracle",
        "level_text": "No ungranted progress observed on any generated history (8k quick / 250k thorough scenarios, every reachable state x input class); exploration, not exhaustive.",
        "level_note": "Fake transport and info provider (mirroring hub.Hub answers) are trusted; hub-level trust bookkeeping is exercised by the hubnet engine once built.",
        "design_ref": "DESIGN.md 6 C01",
    },
    "C03": {
        "technique": "runtime monitor: two real endpoints, seeded interleavings in virtual time, outcome-table oracle (timely) and agreement-at-quiescence oracle (arbitrary)",
        "level_text": "Every explored configuration x interleaving ended as the outcome table dictates (timely) and never in a lasting disagreement (arbitrary); bounded runs (12 virtual minutes).",
        "level_note": "'eventually' is decided at bounded quiescence; FIFO lossless transport model; outcome table written from the documented handshake behaviour. User actions running in parallel with a delivery are exercised but fall under the recorded finding timely:user-action-in-parallel-with-a-delivery (no serialisation in the library): inside that window the check cannot tell a new defect from the recorded one.",
        "design_ref": "DESIGN.md 6 C03, appendix D",
    },
    "C04": {
        "technique": "runtime monitor: reported state sequence checked online against a specification graph; finality checked at quiescent snapshots; single write-fault sweep; frames handed over after a local close; operations at timer boundaries (sequential, and in parallel with the timeout handling)",
        "level_text": "All reported transitions on all explored histories are edges of the role's graph and every terminal outcome stayed final; includes a fault at every single write index of cooperative runs.",
        "level_note": "Specification graph is hand-written (appendix A); histories <= 24 events. Histories in which an operation runs in parallel with a timeout handling fall under the recorded finding timeout-handled-in-parallel-with-another-event: inside that window the check cannot tell a new defect from the recorded one.",
        "design_ref": "DESIGN.md 6 C04, appendix A",
    },
    "C06": {
        "technique": "runtime monitor with unique payload ids: exactly-once / order / not-before-complete / no-loss check over reader events",
        "level_text": "Held on all explored arrival interleavings of data frames with the receiver's remaining handshake (one endpoint) and on two-endpoint runs with concurrent application writers.",
        "level_note": "In-memory FIFO transport; real websocket path is covered by the hubnet/wsconn engines once built.",
        "design_ref": "DESIGN.md 6 C06",
    },
    "C08": {
        "technique": "runtime crash/wedge oracle: recovered panics, child-process death attribution, watchdog goroutine-dump wedge detection, under -race (checkptr); receive loop in parallel with firing timers and application goroutines (storm, focus perturbation)",
        "level_text": "No panic and no wedge on any delivered input (35k quick / 1M thorough inputs across all reachable handshake states, both roles).",
        "level_note": "Structured mutations + random bytes; no claim beyond generated classes; websocket frames and mDNS TXT inputs are covered by wsconn/mdnssim once built.",
        "design_ref": "DESIGN.md 6 C08",
    },
    "C09": {
        "technique": "runtime monitor over event logs: presented-vs-stored SHIP id oracle with an independent parser of the presented id; hub level: application callback log of real hub pairs with stored right/wrong ids, both dial directions, store-on-report and a peer restarting with a changed id",
        "level_text": "Held on the full stored x presented grid for both roles, on two-endpoint runs with wrong/right/unknown ids and on the explored real hub pairs (60 quick / 1500 thorough).",
        "level_note": "Mutated access messages that the independent parser cannot read strictly yield no verdict (counted).",
        "design_ref": "DESIGN.md 6 C09",
    },
    "C14": {
        "technique": "runtime monitor in virtual time: observed timeout deliveries vs a harness-side model of armed/stopped timers (exact due times)",
        "level_text": "Every observed delivery matched the model on all explored arm/stop programs and scheduler settings; stopped timers stayed silent through 30 virtual seconds / 15 idle minutes.",
        "level_note": "Reach depends on the Go scheduler actually producing the stop-before-select interleavings (GOMAXPROCS 1..8, yields, up to 64 connections per bubble).",
        "design_ref": "DESIGN.md 6 C14",
    },
    "C12": {
        "technique": "recorded concurrent write histories on the real websocket connection + linearizability check (direct order/prefix oracle, porcupine cross-check), panic/hang detection",
        "level_text": "No panic, no hang and prefix-linearizable delivery on every recorded history (4.5k quick / about 700k thorough), with the closing event placed throughout the writers' progress.",
        "level_note": "net.Pipe transport (synchronous, queue of one); real-time scheduling decides which interleavings occur; hang verdict needs two matching goroutine dumps, otherwise inconclusive.",
        "design_ref": "DESIGN.md 6 C12, 3.5",
    },
    "C13": {
        "technique": "fault injection at the k-th read/write of a wrapped net.Conn under virtual time (incl. a local close carried out between a socket read and the delivery of its frame) + runtime monitor of reports, deliveries, Close() calls and pump goroutines",
        "level_text": "Every injected single fault, peer close and local close of the explored sessions was reported (or not) as stated and released both pumps and the socket within 75 virtual seconds.",
        "level_note": "Fault positions are sampled per session (k ranges over the session's reads/writes); deciding readers react like ShipConnection; passive reader logged only.",
        "design_ref": "DESIGN.md 6 C13",
    },
    "C17": {
        "technique": "runtime reference-model monitor: manager state compared with a sequential model after every resolver event; last-notification-equals-final-state check at bubble quiescence",
        "level_text": "Model equality after every event and a current last report on all explored histories (5k quick / about 800k thorough), including bursts with many reports in flight.",
        "level_note": "The provider/Start wiring is replaced by a hook; scheduling of the report goroutines is whatever the Go scheduler produces under GOMAXPROCS 1 and 4.",
        "design_ref": "DESIGN.md 6 C17",
    },
    "C19": {
        "technique": "runtime monitor over the call log of a scripted fake Avahi daemon under virtual time (fault sequences x API histories)",
        "level_text": "All explored daemon-fault x API histories ended with the stated browser/announcement state; no restart after shutdown, no deadlock, no panic.",
        "level_note": "The daemon is a fake implementing avahi.ServerInterface; name collisions and real D-Bus timing are not modelled.",
        "design_ref": "DESIGN.md 6 C19",
    },
    "C02": {
        "technique": "runtime monitor at an independent endpoint: adversarial TLS/websocket peers with crafted certificates (wrong/copied SKI, chains, other key types, a stolen genuine certificate without its key, authority key id of the victim) observe whether any SHIP byte is exchanged; application callback log incl. attribution of accepted peers",
        "level_text": "Every explored adversarial peer (160 quick / 3000 thorough) was refused before any SHIP message and every legitimate one accepted; generator certificates always pass.",
        "level_note": "Loopback TLS with Go's crypto/tls on both sides; certificate classes are generated, not all possible encodings.",
        "design_ref": "DESIGN.md 6 C02",
    },
    "C05": {
        "technique": "runtime bounded-progress monitor over real hub pairs: registry views, proxy connection counts, pairing details and payload echo after seeded disturbance sequences (incl. a one-sided registration phase, silent-network stalls, cuts triggered by the second TCP connection, close/reconnect churn); perturbed build with focus and pause sites",
        "level_text": "All explored scenarios converged to exactly one working connection within the watchdog after the last disturbance (48 quick / 1500 thorough pairs).",
        "level_note": "Liveness restated as bounded progress; in-process peer restart; schedules are whatever loopback timing produces (perturbation where available).",
        "design_ref": "DESIGN.md 6 C05",
    },
    "C10": {
        "technique": "runtime monitor over globally sequenced API call/return events and TCP accepts at per-(dialler,target) proxies (ordering oracle with a 500 ms in-flight tolerance); operations also triggered by the target's accept of a dial; perturbed build",
        "level_text": "No dial to unregistered SKIs, none after unregister/cancel/shutdown returned, and the stated end state on every explored operation script.",
        "level_note": "The tolerance is sound by workload design (delayed dials wait >= 1 s); three hubs on loopback.",
        "design_ref": "DESIGN.md 6 C10",
    },
    "C11": {
        "technique": "runtime exactly-once monitor over close reports per connection object (virtual time, cause pairs) + last-notification-vs-registry consistency monitor on real hubs",
        "level_text": "Exactly one close report per ended connection on all explored cause pairs/offsets and consistent final notifications on all explored hub scenarios.",
        "level_note": "Hub-level registry identity comes from the verif registry hook; hub scenarios are real-time.",
        "design_ref": "DESIGN.md 6 C11",
    },
    "C15": {
        "technique": "metamorphic runtime check: canonical vs re-spelled SKI arguments on twin hub pairs, per-step effect comparison in equal hub states; the (hub state x first operation) grid is walked systematically",
        "level_text": "Every compared step had identical effects for canonical and re-spelled SKIs (operations x hub states x 4 spellings).",
        "level_note": "Steps whose twin runs were not in the same stable state are not compared (counted).",
        "design_ref": "DESIGN.md 6 C15",
    },
    "C18": {
        "technique": "runtime monitor: last delivered pairing-state notification vs PairingDetailForSki at every settled point (after each run) on real hub pairs: success/reconnect churn, refusal, pending, local and remote cancel, accept-then-unregister; focus perturbation of the notification goroutines; order check for single-connection runs",
        "level_text": "At every settled point (one after each run: completed, refused, waiting for the user, cancelled by either side, accepted) of the explored scenarios the last notification showed the current state.",
        "level_note": "Decides the final clause at every checkpoint and the order clause for undisturbed single-connection runs; other intermediate reorderings that do not end stale are observationally not distinguishable from legitimate sequences (DESIGN.md).",
        "design_ref": "DESIGN.md 6 C18",
    },
    "C20": {
        "technique": "Go race detector over all engines' workloads plus a dedicated concurrent hub API stress profile and zeroconf rounds (real MdnsManager.Start, real multicast sockets); reports parsed from GORACE logs and de-duplicated by access pair",
        "level_text": "No data race with a library frame reported on the explored executions; evidence lists the overlapping operation pairs actually observed.",
        "level_note": "A clean run means no race on these executions, never race freedom.",
        "design_ref": "DESIGN.md 6 C20, 3.3",
    },
}
