"""Which engines decide which property, with the workload sizes of each tier."""

ENGINES = {
    "pure":     {"mod": "h23", "go": "go",     "pkg": "./pure",     "race": False},
    "hubnet":   {"mod": "h23", "go": "go",     "pkg": "./hubnet"},
    "shipsim1": {"mod": "h26", "go": "go1.26", "pkg": "./shipsim1"},
    "shipsim2": {"mod": "h26", "go": "go1.26", "pkg": "./shipsim2"},
    "wsconn":   {"mod": "h26", "go": "go1.26", "pkg": "./wsconn"},
    "timers":   {"mod": "h26", "go": "go1.26", "pkg": "./timers"},
    "mdnssim":  {"mod": "h26", "go": "go1.26", "pkg": "./mdnssim"},
}

T_SIM = {"quick": 900, "thorough": 3600}
EXPL = "exploration"
FAULT = "fault_enumeration"

PROPS = {
    "C07": {
        "level": EXPL,
        "plan": [{"engine": "pure", "thorough_scale": 4, "timeout": {"quick": 600, "thorough": 3000}}, {"engine": "shipsim2", "thorough_scale": 3, "timeout": T_SIM}],
        "rule": "documents (top level an object) from a seeded grammar generator (depth<=6, width<=6, unique member names, "
                "number literals as text, strings rich in brackets/quotes/escapes/multi-byte runes, empty containers) plus mutated "
                "real SPINE datagrams; a case is distinct by its sorted feature set (empty-array, string-bracket-seq, num-big, ...); "
                "oracles: token-level round-trip equality and equality of the wire form with the reference shape transform; end to end (shipsim2): generated documents as SPINE "
                "payloads between two real completed ShipConnections (WriteShipMessageWithPayload -> envelope splice -> FIFO transport -> HandleIncomingWebsocketMessage -> "
                "pre-completion buffer or reader), 4-19 documents per direction and scenario, 'datagram' as member name on/below top level or only inside a string; what the peer's reader "
                "got must parse into an equal document and none may be dropped",
        "floors": {"evaluations": 50000, "classes": 100, "counters": {"shipsim2:e2e:payloads-compared": 5000}},
        "assumptions": ["lone surrogate escapes and duplicate member names are not generated", "documents below 64 KiB"],
    },
    "C16": {
        "level": EXPL,
        "plan": [{"engine": "pure", "thorough_scale": 10, "timeout": {"quick": 600, "thorough": 3000}}],
        "rule": "service configurations from a seeded generator (fields 0..200 bytes, '=', ';', ':', multi-byte runes straddling byte 32, "
                "invalid UTF-8, category lists, both auto-accept values, ports 0..65535); distinct by the set of (field, feature) pairs; "
                "oracle: announced TXT -> library parser -> second manager's entry, and an independent strict QR parser",
        "floors": {"evaluations": 10000, "classes": 100},
        "assumptions": ["MdnsManager.Start provider selection replaced by the VerifAttach hook (fake provider)"],
    },
    "C01": {
        "level": EXPL,
        "plan": [{"engine": "shipsim1", "timeout": T_SIM}, {"engine": "shipsim2", "timeout": T_SIM},
                 {"engine": "hubnet", "timeout": {"quick": 900, "thorough": 5400}, "shards": 12}],
        "rule": "B1: one real ShipConnection in a synctest bubble; histories = cooperative prefix (every reachable handshake state, both roles, 5 trust "
                "configurations) x every input class of the alphabet (valid/out-of-phase/mutated SHIP messages, data frames, timer expiries in "
                "virtual time, approve/cancel, transport errors, write faults) + seeded random histories <= 24 events; B2: two real endpoints with "
                "seeded interleavings. A case is distinct by (role, state at delivery, input class) / grant kind; the monitor flags any state >= hello-ok, "
                "setup callback or payload delivery on a server-role connection without a grant (paired answer, auto-accept answer, user approval) or after a cancel; "
                "hub level: three real hubs and operation scripts (register, unregister, cancel, auto-accept, disconnect, shutdown, mDNS hide/show, peers registering/unregistering): "
                "no SetupRemoteDevice for a SKI that is not registered at that moment with auto-accept off",
        "floors": {"evaluations": 3000, "classes": 80, "counters": {"shipsim1:scenarios-complete": 200}},
        "assumptions": ["info provider answers mirror hub.Hub (trusted set on hello-ok is not counted as a grant)", "frames shorter than 2 bytes never reach the SHIP layer (ws layer)"],
    },
    "C03": {
        "level": EXPL,
        "plan": [{"engine": "shipsim2", "perturb": True, "perturb_mode": "1", "perturb_scale": 0.3, "thorough_scale": 5, "timeout": T_SIM}],
        "rule": "two real endpoints (client/server role) joined by harness FIFO queues in a synctest bubble; configuration grid (trust mode x user "
                "approve/cancel/never at a seeded virtual time x waiting allowed on either side x known/unknown/wrong SHIP ids) x seeded interleaving of "
                "deliveries, close propagation and timer expiries; timely mode is checked against the outcome table of DESIGN.md appendix D, arbitrary mode "
                "for agreement at quiescence; a case is distinct by its interleaving signature (hash of the choice list) and outcome class",
        "floors": {"evaluations": 1000, "classes": 300, "counters": {"shipsim2:timely:both-complete-open": 50}},
        "assumptions": ["FIFO transport without loss", "approvals are not scheduled within 1.5 s of a timer boundary in timely mode", "horizon 12 virtual minutes"],
    },
    "C04": {
        "level": EXPL,
        "plan": [{"engine": "shipsim1", "perturb": True, "perturb_mode": "1", "perturb_scale": 0.5,
                  "perturb_focus": "handshakeHello_Pending,setHandshakeTimer,stopHandshakeTimer,CloseConnection,endHandshakeWithError,closeDataConnectionAndReport", "timeout": T_SIM},
                 {"engine": "shipsim2", "timeout": T_SIM}],
        "rule": "same histories as C01 plus a transport found dead at every single write index of every cooperative run, a frame handed over after a local close (read by the pump just before it), and operations issued at the very instant a timer fires (sleeps that end exactly at the 10 s / 60 s / 66 s / waiting-30 s boundaries, next operation in parallel with the timeout handling; also on the perturbed build); the monitor compares every "
                "reported transition with the role's specification graph (DESIGN.md appendix A) and checks finality after a terminal report (no progress "
                "state, only closing frames, timer flag clear at quiescent snapshots, transport closed 2 virtual seconds later); distinct = edges, "
                "(role,state,input class) pairs, (terminal outcome x later event) pairs observed",
        "floors": {"evaluations": 3000, "classes": 150, "counters": {"shipsim1:write-fault-scenarios": 50}},
        "assumptions": ["specification graph written by hand from model/types.go and the SHIP phase order", "a write fails only when the transport is closed (as ws.WebsocketConnection behaves)"],
    },
    "C06": {
        "level": EXPL,
        "plan": [{"engine": "shipsim1", "timeout": T_SIM}, {"engine": "shipsim2", "timeout": T_SIM}],
        "rule": "B1: uniquely numbered data frames injected at every position of the handshake (before init, between handshake messages, after completion); "
                "B2: both applications send from inside the setup callback, after it and from 1-4 concurrent goroutines while the peer's handshake tail is in flight; "
                "oracle: payloads reach the reader only after the complete report, exactly once, in acceptance order, byte-equal to the expected standard-JSON payload, "
                "none missing while the connection stays open; distinct = (accepted, handed over, delivered) count classes and buffered counts",
        "floors": {"evaluations": 3000, "classes": 20},
        "assumptions": ["payload bodies avoid the recorded C07 input classes (empty arrays)"],
    },
    "C08": {
        "level": EXPL,
        "plan": [{"engine": "shipsim1", "perturb": True, "perturb_mode": "1", "perturb_scale": 0.5, "perturb_focus": "setHandshakeTimer,stopHandshakeTimer,setState", "timeout": T_SIM},
                 {"engine": "wsconn", "timeout": T_SIM}, {"engine": "mdnssim", "timeout": T_SIM}],
        "rule": "B1 histories (see C01): in every handshake state reachable by a cooperative prefix, both roles, each input of the alphabet (valid messages of "
                "every phase, field removed/duplicated/ill-typed, empty lists, huge numbers, deep nesting, whitespace variants, NUL padding, wrong header bytes) "
                "and byte-level mutations/arbitrary bytes; a panic is recovered at the entry point (or kills the child process, attributed by the scenario log), "
                "a call that never returns is decided by the in-process watchdog from two goroutine dumps; plus the receive loop running in parallel with firing timers (waiting values that arm timers of 0-100 ms) and application goroutines in one bubble (also on the perturbed build, focus on the timer functions); wsconn: 59 hostile websocket frames (every opcode, "
                "reserved bits, wrong masking, fragments, length lies, oversize, text, close codes) on both sides of the handshake, afterwards the connection must be closed-and-released "
                "or still deliver; mdnssim: generated TXT maps / host names / address lists (nil IPs) / ports -1..70000 / removes handed to the resolver callback, afterwards only "
                "valid records may be present; distinct = (role, state, input class) pairs, frame kinds, TXT classes",
        "floors": {"evaluations": 3000, "classes": 150, "counters": {"shipsim1:inputs-delivered": 5000}},
        "crash_decides": True,
        "assumptions": ["inputs shorter than 2 bytes are rejected by the ws layer and not delivered here"],
    },
    "C09": {
        "level": EXPL,
        "plan": [{"engine": "shipsim1", "timeout": T_SIM}, {"engine": "shipsim2", "timeout": T_SIM},
                 {"engine": "hubnet", "timeout": {"quick": 900, "thorough": 5400}, "shards": 12}],
        "rule": "grid stored id {none, A} x presented id {A, B, empty, missing, number, null, 4 KiB, unicode, array} x role x order of access request/reply x trust mode, "
                "followed by further input; B2 with stored ids none/right/wrong on either side of two real endpoints; the presented id is read by an independent strict "
                "parser (ambiguous mutated messages give no verdict); hub level: two real hubs that registered each other, the application stored none / the right / a wrong (other text, case, prefix, suffix) "
                "SHIP ID for the peer's SKI before or after registering or after Start, under any SKI spelling; who dials is steered by mDNS visibility (inbound, outbound, both); second phase: the application stores the "
                "reported id, reconnects, then the peer restarts with a changed id; oracle: never a setup at a hub whose stored id differs from the presented one, no id report once stored, a report of the real id before "
                "each setup otherwise; distinct = (role, stored?, presented class) pairs and (dialler, stored kinds, phase, store moment) at hub level",
        "floors": {"evaluations": 3000, "classes": 15, "counters": {"hubnet:hub:completed-with-stored-right-id:A": 3, "hubnet:hub:completed-after-first-report:A": 3}},
        "assumptions": ["messages containing the substring 'datagram' are routed to the SPINE path (documented rule) and not counted as presentations"],
    },
    "C14": {
        "level": EXPL,
        "plan": [{"engine": "timers", "perturb": True, "perturb_mode": "1", "perturb_scale": 0.5, "thorough_scale": 3, "timeout": T_SIM}],
        "rule": "programs over {arm(d), stop, yield, quiescence wait, sleep} issued through the verif timer wrappers on 1..64 real connections per bubble "
                "(GOMAXPROCS 1..8), each parked in the CMI wait state where a timeout is visible as an error report; the harness model knows when the most "
                "recently armed, unstopped timer is due (virtual time, exact); plus protocol flows with zero-delay answers followed by 15 idle minutes "
                "(complete) and prolongation loops (pending); distinct = (delivery expected?, #connections, GOMAXPROCS, zero-gap stop, program length)",
        "floors": {"evaluations": 2000, "classes": 30, "counters": {"timers:stop-immediately-after-arm": 100}},
        "assumptions": ["a timeout is observed through its effect (error report / prolongation frame); only the first delivery per connection is visible in hook programs"],
    },
    "C13": {
        "level": FAULT,
        "plan": [{"engine": "wsconn", "perturb": True, "perturb_mode": "1", "perturb_scale": 0.3, "timeout": T_SIM}],
        "rule": "real ws.WebsocketConnection on a gorilla conn (client- and server-side variants) over a fault-injecting net.Conn on a net.Pipe, raw websocket "
                "peer with its own frame codec, synctest bubble (virtual ping/pong/write deadlines); sessions of 0..8 in/out messages and ping rounds with: a failure "
                "at the k-th read / k-th write (error, EOF, short write) for k over the session, peer close frames (no code, 1000, 1001, 4001, 4452, 4500, random), peer EOF, "
                "local close with/without reason, local close carried out exactly while the read pump holds the bytes of its k-th socket read (scheduling point between taking a frame from the socket and delivering it); readers: reacting like ShipConnection (two variants), the real ShipConnection, passive (logged only); checked 75 virtual "
                "seconds later: error reported / not reported, closed-query, nothing delivered afterwards, Close() called on the conn, no pump goroutine left in the bubble; "
                "distinct = (kind, mode, close code class, reader, side)",
        "floors": {"evaluations": 500, "classes": 40, "counters": {"wsconn:kind:read-fault": 20, "wsconn:kind:write-fault": 20}},
        "crash_prop": "C13", "crash_decides": True,
        "assumptions": ["fault indices are sampled within the session, not every k of every session", "concurrent-writer traffic with faults is exercised in the real-time C12 scenarios"],
    },
    "C12": {
        "level": EXPL,
        "plan": [{"engine": "wsconn", "perturb": True, "perturb_mode": "sleep", "perturb_scale": 0.5, "thorough_scale": 4, "timeout": T_SIM}],
        "rule": "real time: 1..32 writer goroutines x <=16 unique messages on one connection, peer reading promptly / slowly / not at all (full queue), closing event "
                "(local close with/without reason, peer close frame, peer EOF, failing k-th transport write, none) fired after a seeded number of accepted writes; every "
                "write call is recorded (call/return on one monotonic clock, result, recovered panic, closed-flag seen before the call); oracle: no panic, no write parked "
                "for ever (two goroutine dumps), no accepted write after closed was observed, received sequence = gap-free prefix of a linearization of the accepted writes "
                "(direct check + porcupine with a deterministic queue-prefix model); distinct = (writers, peer, event, accepted/received buckets, errors, close between writes)",
        "floors": {"evaluations": 500, "classes": 60, "counters": {"wsconn:close-between-writes-of-one-writer": 50, "wsconn:porcupine-ok": 300}},
        "crash_prop": "C12", "crash_decides": True,
        "assumptions": ["scenarios that would need the real 10 s write deadline (stalled peer + close with reason) are not in the quick tier"],
    },
    "C17": {
        "level": EXPL,
        "plan": [{"engine": "mdnssim", "perturb": True, "perturb_mode": "1", "perturb_scale": 0.3, "thorough_scale": 2, "timeout": T_SIM}],
        "rule": "real MdnsManager + real (not started) Hub + recording application in a synctest bubble; resolver event histories <= 40 over 1-5 services x 1-4 addresses "
                "(IPv4, IPv6 global, IPv6 link-local, duplicates inside one event), adds, removes in Avahi and zeroconf shape, invalid records (each mandatory key missing, txtvers 2, "
                "non-boolean register, own SKI, nil/empty map), bursts without settling so that report goroutines pile up, GOMAXPROCS 1/4; oracle: the manager's entries equal a "
                "reference model after every event; the last delivered visible-services list equals the final model at quiescence; distinct = history shape classes and delivery-order signatures",
        "floors": {"evaluations": 1000, "classes": 200, "counters": {"mdnssim:histories-with-reports-in-flight": 200}},
        "crash_prop": "C17", "crash_decides": True,
        "assumptions": ["MdnsManager.Start wiring (provider selection, D-Bus, sockets) replaced by the VerifAttach hook"],
    },
    "C19": {
        "level": EXPL,
        "plan": [{"engine": "mdnssim", "thorough_scale": 8, "timeout": T_SIM}],
        "rule": "real AvahiProvider against a scripted fake Avahi daemon (avahi.ServerInterface) in a synctest bubble: histories of 2-12 operations over daemon down / up with 0-3 failing "
                "attempts at setup, API version or browser creation / announce(txt_i) / unannounce / shutdown / second shutdown / start after shutdown / browse results / virtual gaps "
                "around the 1 s retry tick; oracle at quiescence after the daemon is back: browser on the current session, exactly one committed entry group iff an announcement is active, "
                "with the most recently requested TXT, later browse results reported, nothing restarted after Shutdown returned, Shutdown returns; distinct = operation-pair classes",
        "floors": {"evaluations": 1000, "classes": 40},
        "crash_prop": "C19", "crash_decides": True,
        "assumptions": ["the fake daemon delivers Disconnected once per lost connection on its own goroutine, like go-avahi", "D-Bus and the real Avahi client are outside the sandbox"],
    },
    "C05": {
        "level": EXPL,
        "plan": [{"engine": "hubnet", "perturb": True, "perturb_mode": "sleep", "perturb_scale": 0.5, "perturb_focus": "ServeHTTP,connectFoundService,registerConnectionPreventingDouble,HandleConnectionClosed,keepThisConnection", "pause_before": ["h.registerConnectionPreventingDouble(shipConnection"], "pause_us": 8000, "timeout": {"quick": 900, "thorough": 5400}, "shards": 12}],
        "rule": "real hubs on loopback TLS/websocket ports, each with the real MdnsManager behind a fake mDNS bus, per-(dialler,target) TCP proxies, recording echoing applications; dial back-off table set to 0-1/1-2/2-3 s; two mutually registering hubs: registration before/after Start, simultaneous registration (double connection), one-sided mDNS visibility, a one-sided phase (A registered and dials, the request waits for B's user, a cut / disconnect / restart hits that connection, then B registers), a cut 0-12 ms after the second TCP connection of a simultaneous start appeared, then 0-4 disturbances (DisconnectSKI by either or both sides, TCP cut, a silent network with a disconnect into it followed by a reset, peer restart with same certificate and port, mDNS disappear/reappear) with seeded gaps, then 0-8 further close/reconnect cycles; bounded progress oracle: within 60 s after the last disturbance both registries hold exactly one open completed connection to the other, both pairing details are 'completed', exactly one live TCP connection, stable for 1.2 s with no new dial, and a uniquely numbered payload echoes in both directions; a run still dialling at the watchdog is inconclusive; distinct = (registration timing, simultaneity, visibility, disturbance list)",
        "assumptions": ['two hubs, loopback only; liveness decided as bounded progress (60 s watchdog)', 'peer restart = Shutdown + new hub in the same process'],
        "floors": {'evaluations': 30, 'classes': 20, 'counters': {'hubnet:converged': 25}},
    },
    "C02": {
        "level": EXPL,
        "plan": [{"engine": "hubnet", "timeout": {"quick": 900, "thorough": 5400}, "shards": 12}, {"engine": "pure", "timeout": {"quick": 300, "thorough": 1200}}],
        "rule": "real hubs on loopback TLS/websocket ports, each with the real MdnsManager behind a fake mDNS bus, per-(dialler,target) TCP proxies, recording echoing applications; dial back-off table set to 0-1/1-2/2-3 s; adversarial TLS/websocket clients (inbound) and servers (outbound, the mDNS entry of a registered SKI points at them) with harness-made certificates: no certificate, no SKI, SKI of 0..40 bytes, SKI = SHA-1 of the own key, SKI copied from another (paired or unpaired) device onto a fresh key; TLS max version 1.0-1.3; sub-protocol offers none/ship/other/several; oracle: what the adversary received (a SHIP frame or not) and the application callbacks naming a SKI; plus the generator part (pure): certificates from CreateCertificate for generated subject strings pass the hub's own check and carry a 40-hex-digit SKI equal to SHA-1 of the public key; distinct = (direction, certificate kind, SKI length, TLS version, protocols, victim paired)",
        "assumptions": ['the adversary observes for 3 s or until the hub closes the connection'],
        "floors": {'evaluations': 100, 'classes': 30, 'counters': {'hubnet:legitimate-peer-accepted': 5}},
    },
    "C10": {
        "level": EXPL,
        "plan": [{"engine": "hubnet", "perturb": True, "perturb_mode": "sleep", "perturb_scale": 1.0, "pause_before": ["h.registerConnectionPreventingDouble(shipConnection, false)"], "pause_us": 6000, "timeout": {"quick": 900, "thorough": 5400}, "shards": 12}],
        "rule": "real hubs on loopback TLS/websocket ports, each with the real MdnsManager behind a fake mDNS bus, per-(dialler,target) TCP proxies, recording echoing applications; dial back-off table set to 0-1/1-2/2-3 s; three hubs (observed hub D and two targets), dial back-off 1-2/2-3/3-4 s so that every delayed dial waits >= 1 s; scripts of 3-12 operations on D (register, unregister, cancel, auto-accept on/off, disconnect, shutdown) interleaved with mDNS hide/show and with the targets registering/unregistering D, gaps 0-2.5 s (operations land inside pending dial delays), plus unregister / cancel / shutdown issued 0-2 ms after the target's hub accepted the websocket of D's outbound dial (while D turns that dial into a registered connection; also on the perturbed build, where seeded sleeps widen the windows between the statements); oracle over global sequence numbers/times of API call/return events and TCP accepts at D's per-target proxies: no dial to a never-registered SKI (auto-accept pairing counts as registration), no dial later than 500 ms after unregister/cancel/Shutdown returned, afterwards untrusted, no live outbound connection, no setup with auto-accept off; distinct = consecutive operation pairs",
        "assumptions": ['500 ms tolerance separates an in-flight dial from a delayed dial that ignored the call (workload design: delayed dials wait >= 1 s)'],
        "floors": {'evaluations': 30, 'classes': 30},
    },
    "C15": {
        "level": EXPL,
        "plan": [{"engine": "hubnet", "timeout": {"quick": 900, "thorough": 5400}, "shards": 12}],
        "rule": 'real hubs on loopback TLS/websocket ports, each with the real MdnsManager behind a fake mDNS bus, per-(dialler,target) TCP proxies, recording echoing applications; dial back-off table set to 0-1/1-2/2-3 s; metamorphic: the same script (bring the hub into no-connection / pending / completed, then register, unregister, disconnect, cancel, pairing detail, service lookup) runs on two fresh hub pairs, once with canonical SKIs, once with every SKI argument re-spelled (upper case, spaces, dashes, mixed case); compared per step, only when both runs are in the same stable hub state: did the connection registered before the call get closed, trusted flag, PairingDetailForSki(arg) == PairingDetailForSki(canonical), ServiceForSKI(arg) identity, registry keys; distinct = (operation, hub state, spelling)',
        "assumptions": ['reconnect dynamics after a step are real-time dependent and not compared (steps applied in unstable states are counted as not comparable)'],
        "floors": {'evaluations': 15, 'classes': 15, 'counters': {'hubnet:steps-compared': 30}},
    },
    "C20": {
        "level": EXPL,
        "plan": [{"engine": "hubnet", "perturb": True, "perturb_mode": "sleep", "perturb_scale": 0.5, "timeout": {"quick": 1200, "thorough": 7200}, "shards": 12, "env": {"VERIF_SCALE_OTHERS": "0.25"}},
                 {"engine": "wsconn", "timeout": T_SIM, "env": {"VERIF_SCALE": "0.3"}},
                 {"engine": "shipsim2", "timeout": T_SIM, "env": {"VERIF_SCALE": "0.3"}},
                 {"engine": "shipsim1", "timeout": T_SIM},
                 {"engine": "mdnssim", "timeout": T_SIM, "env": {"VERIF_SCALE": "0.3"}},
                 {"engine": "timers", "timeout": T_SIM, "env": {"VERIF_SCALE": "0.3"}}],
        "rule": 'all engines under the Go race detector: hubnet stress profile (3 hubs full mesh, 9 application goroutines issuing register/unregister/disconnect/cancel/pairing detail/service lookup/auto-accept/send/QR concurrently with Start, connection establishment, handshakes, echo traffic, TCP cuts, mDNS hide/show/re-announce storms and one hub shutting down) plus the pair/C02/C15 scenarios, the real-time multi-writer websocket scenarios, two-endpoint bubbles with concurrent senders, mdns manager/avahi bubbles, timer programs, and real MdnsManagers started through the real Start with the zeroconf provider (real multicast sockets, 2-4 managers resolving each other, application goroutines issuing auto-accept/announce/unannounce/request/QR/shutdown concurrently); a report counts if one of the two stacks has a non-test ship-go frame; de-duplicated by the innermost library functions of the two accesses; distinct = overlapping (operation, operation) pairs observed + scenario classes exercised under -race',
        "assumptions": ['the race detector only sees races on executed paths and schedules that occurred', 'in the bubble engines MdnsManager.Start wiring is replaced by a hook that writes the same fields through the same setters; the zeroconf rounds use the real Start and count as unavailable where the sandbox has no multicast-capable interface'],
        "floors": {'evaluations': 200, 'classes': 60, 'counters': {'hubnet:api-operations': 500}},
        "race_decides": True,
    },
    "C11": {
        "level": EXPL,
        "plan": [{"engine": "shipsim2", "timeout": T_SIM}, {"engine": "shipsim1", "timeout": T_SIM}, {"engine": "hubnet", "perturb": True, "perturb_mode": "sleep", "perturb_scale": 1.0, "perturb_focus": "ServeHTTP,connectFoundService,registerConnectionPreventingDouble,HandleConnectionClosed,keepThisConnection", "pause_before": ["h.registerConnectionPreventingDouble(shipConnection"], "pause_us": 8000, "timeout": {"quick": 900, "thorough": 5400}, "shards": 12}],
        "rule": "connection level (bubbles): every close cause (local graceful/unsafe close, unregister, peer announce/confirm, transport error, handshake error, abort, application write after the peer closed) and "
                "ordered pairs of causes at virtual offsets 0/1 ms/499/500/501 ms/1 s on two real endpoints, plus all one-endpoint histories: HandleConnectionClosed exactly once per ended connection, "
                "never for an open one; a local operation that never returns is a violation (watchdog); hub level (real hubs): pair scenarios with disconnects from either/both sides, cuts, restarts, double connections: "
                "at the settled point the last of the application's setup/disconnected notifications per SKI is 'setup' exactly when a completed connection is registered, no stale closed registry entry; "
                "distinct = (cause, who, offset) pairs, close-report counts, notification count classes",
        "floors": {"evaluations": 3000, "classes": 60},
        "assumptions": ["connection identity at hub level is the registry entry seen through the verif hook"],
    },
    "C18": {
        "level": EXPL,
        "plan": [{"engine": "hubnet", "perturb": True, "perturb_mode": "sleep", "perturb_scale": 1.0, "perturb_focus": "HandleShipHandshakeStateUpdate,ServeHTTP,registerConnection", "perturb_focus_max_us": 12000, "timeout": {"quick": 900, "thorough": 5400}, "shards": 12}],
        "rule": "real hub pairs (see C05) through success, reconnects, disconnects, restarts; at the settled point (900 ms after convergence, > the 500 ms notification delay) the state of the last "
                "ServicePairingDetailUpdate per SKI must equal PairingDetailForSki; distinct = delivered notification sequences",
        "floors": {"evaluations": 30, "classes": 20},
        "assumptions": ["final clause only (last notification = current state); the order clause is covered only as far as a stale last notification shows it"],
    },
}
