"""Which engines decide which property, with the workload sizes of each tier."""

ENGINES = {
    "pure":     {"mod": "h23", "go": "go",     "pkg": "./pure",     "race": False},
    "hubnet":   {"mod": "h23", "go": "go",     "pkg": "./hubnet"},
    "shipsim1": {"mod": "h26", "go": "go1.26", "pkg": "./shipsim1"},
    "shipsim2": {"mod": "h26", "go": "go1.26", "pkg": "./shipsim2"},
    "wsconn":   {"mod": "h26", "go": "go1.26", "pkg": "./wsconn"},
    "timers":   {"mod": "h26", "go": "go1.26", "pkg": "./timers"},
    "mdnssim":  {"mod": "h26", "go": "go1.26", "pkg": "./mdnssim"},
}

EXPL = "exploration"
FAULT = "fault_enumeration"

PROPS = {
    "C07": {
        "level": EXPL,
        "plan": [{"engine": "pure", "timeout": {"quick": 600, "thorough": 3000}}],
        "rule": "documents (top level an object) from a seeded grammar generator (depth<=6, width<=6, unique member names, "
                "number literals as text, strings rich in brackets/quotes/escapes/multi-byte runes, empty containers) plus mutated "
                "real SPINE datagrams; a case is distinct by its sorted feature set (empty-array, string-bracket-seq, num-big, ...); "
                "oracles: token-level round-trip equality and equality of the wire form with the reference shape transform",
        "floors": {"evaluations": 50000, "classes": 100},
        "assumptions": ["lone surrogate escapes and duplicate member names are not generated", "documents below 64 KiB"],
    },
    "C16": {
        "level": EXPL,
        "plan": [{"engine": "pure", "timeout": {"quick": 600, "thorough": 3000}}],
        "rule": "service configurations from a seeded generator (fields 0..200 bytes, '=', ';', ':', multi-byte runes straddling byte 32, "
                "invalid UTF-8, category lists, both auto-accept values, ports 0..65535); distinct by the set of (field, feature) pairs; "
                "oracle: announced TXT -> library parser -> second manager's entry, and an independent strict QR parser",
        "floors": {"evaluations": 10000, "classes": 100},
        "assumptions": ["MdnsManager.Start provider selection replaced by the VerifAttach hook (fake provider)"],
    },
    "C08": {
        "level": EXPL,
        "plan": [{"engine": "shipsim1", "timeout": {"quick": 900, "thorough": 3000}}],
        "rule": "x",
        "floors": {"evaluations": 1000, "classes": 50},
        "crash_decides": True,
    },
}
