package shipsim1

import (
	"encoding/json"
	"fmt"
	"os"
	"strconv"
	"strings"
	"testing"
	"time"

	"verif/h26/simkit"
	vc "verifcommon"
)

const engine = "shipsim1"

var props = []string{"C01", "C04", "C06", "C08", "C09", "C11"}

func evaluate(col *vc.Collector, sc *Scenario, res runResult) {
	meta := simkit.ConnMeta{Who: "E", Server: sc.Server, StoredID: sc.StoredID}
	evs := res.Evs
	role := "C"
	if sc.Server {
		role = "S"
	}
	wit := func() any {
		return map[string]any{"scenario": sc, "log": simkit.Compact(evs, 160)}
	}
	report := func(fs []simkit.Finding) {
		for _, f := range fs {
			col.Violation(f.Prop, f.Sig, f.Detail, sc.ID, wit())
		}
	}
	for _, p := range props {
		col.Eval(p, 1)
	}
	if res.BubbleErr != "" {
		sig := "bubble:" + res.BubbleErr
		if strings.Contains(res.BubbleErr, "blocked goroutines remain") {
			sig = "leak:blocked-goroutines"
		}
		col.Violation("C08", sig, res.BubbleErr, sc.ID, wit())
		return
	}
	// coverage: (state x input class) pairs
	for _, e := range evs {
		if e.Kind == "in" && e.B {
			cls := strings.SplitN(e.S, "|", 2)[0]
			key := fmt.Sprintf("%s:state%d:%s", role, e.N, cls)
			col.Class("C08", key)
			col.Class("C04", key)
			if sc.Server {
				col.Class("C01", key)
			}
			col.Count("C08", "inputs-delivered", 1)
		}
		if e.Kind == "state" && e.N == 38 {
			col.Count("C01", "scenarios-complete", 1)
			col.Count("C04", "scenarios-complete", 1)
		}
	}
	if sc.hasParallelBoundary() {
		// an operation ran at the very instant a timer fired, in parallel with the timeout handling (C04 runs
		// only). Timeouts are handled on the timer goroutine while the read pump / the application goroutine
		// drive the same state machine: whatever the C04 monitor finds in such a history is the recorded finding
		// "timeout-handled-in-parallel-with-another-event"; the other monitors are not applied to it
		col.Count("C04", "histories-with-an-operation-in-parallel-with-a-timeout", 1)
		fs := simkit.MonitorC04(evs, meta, func(a, b int) {}, func(k string) {})
		kinds := map[string]bool{}
		for _, f := range fs {
			kinds[strings.SplitN(f.Sig, ":", 2)[0]] = true
		}
		if len(fs) > 0 {
			var ks []string
			for k := range kinds {
				ks = append(ks, k)
			}
			col.Violation("C04", "timeout-handled-in-parallel-with-another-event", fmt.Sprintf("%d findings (%s), first: %s %s", len(fs), strings.Join(ks, ","), fs[0].Sig, fs[0].Detail), sc.ID, wit())
		}
		report(simkit.MonitorC08(evs))
		return
	}
	report(simkit.MonitorC01(evs, meta, func(k string) { col.Class("C01", k); col.Count("C01", k, 1) }))
	report(simkit.MonitorC04(evs, meta,
		func(a, b int) { col.Class("C04", fmt.Sprintf("%s:edge:%d->%d", role, a, b)) },
		func(k string) { col.Class("C04", k) }))
	report(simkit.MonitorC06(evs, meta, res.Wants, func(k string) { col.Class("C06", role+":"+k) }))
	report(simkit.MonitorC08(evs))
	report(simkit.MonitorC09(evs, meta, func(k string) { col.Class("C09", role+":"+k) }))
	// C11 at connection level: exactly one close report by the end of the scenario (the harness
	// closes every connection at the end, so every connection has ended)
	report(simkit.MonitorC11(evs, meta, true, func(k string) { col.Class("C11", role+":"+k) }))
	if sc.DeadAt > 0 {
		col.Count("C04", "write-fault-scenarios", 1)
		col.Class("C04", fmt.Sprintf("%s:dead-at-write:%d", role, sc.DeadAt))
	}
	for _, p := range props {
		if col.WantSample(p) && sc.Kind == "rand" {
			col.Sample(p, map[string]any{"scenario": sc.Desc(), "steps": stepNames(sc), "events": len(evs)})
		}
	}
}

func stepNames(sc *Scenario) []string {
	var out []string
	for _, s := range sc.Steps {
		n := s.Op
		if s.In != nil {
			n += ":" + s.In.Class + "/" + s.In.Sub
		}
		if s.D != 0 {
			n += ":" + s.D.String()
		}
		if !s.Settle {
			n += "(racing)"
		}
		out = append(out, n)
	}
	return out
}

func TestEngine(t *testing.T) {
	run_ := vc.LoadRun(engine)
	col := vc.NewCollector(run_)
	start, _ := strconv.Atoi(os.Getenv("VERIF_START"))
	wd := vc.NewWatchdog(col, 20*time.Second)
	wd.Attribute = func(op string) string {
		switch op {
		case "deliver", "terr", "run":
			return "C08" // peer-controlled input wedged the connection
		}
		return "C11" // a local operation never returned: the end of the connection is never accounted for
	}

	if run_.Replay != "" {
		var rp struct {
			Witness struct {
				Scenario Scenario `json:"scenario"`
			} `json:"witness"`
		}
		b, err := os.ReadFile(run_.Replay)
		if err == nil && json.Unmarshal(b, &rp) == nil && rp.Witness.Scenario.ID != "" {
			sc := rp.Witness.Scenario
			vc.Scn(sc.ID)
			wd.Begin(sc.ID, func() any { return map[string]any{"scenario": sc} })
			evaluate(col, &sc, run(t, &sc, wd))
			wd.End()
		}
		col.Write(true)
		return
	}

	if run_.Prop == "C20" {
		n := run_.N(6000, 150000)
		for i := 0; i < n; i++ {
			if !run_.Mine(i) || i < start {
				continue
			}
			id := fmt.Sprintf("%s/%d/storm", engine, i)
			vc.Scn(id)
			wd.Begin(id, nil)
			runStorm(t, vc.NewRand(run_.Seed, engine+"-storm", uint64(i)), id, col, "C20", wd)
			wd.End()
		}
		col.Write(true)
		return
	}
	sp := newSysSpace()
	nSys := len(sp.cells)
	nRand := run_.N(4000, 190000)
	if run_.Tier == "quick" {
		// quick: a seed-chosen third of the systematic cells + random histories
		nSys = nSys / 3
	}
	total := nSys + nRand
	for i := 0; i < total; i++ {
		if !run_.Mine(i) || i < start {
			continue
		}
		r := vc.NewRand(run_.Seed, engine, uint64(i))
		var sc *Scenario
		if i < nSys {
			idx := i
			if run_.Tier == "quick" {
				idx = i*3 + int(run_.Seed%3)
			}
			sc = sp.build(idx, r)
		} else {
			sc = randomScenario(r, sp.alpha)
		}
		sc.ID = fmt.Sprintf("%s/%d/%s", engine, i, sc.Desc())
		vc.Scn(sc.ID)
		wd.Begin(sc.ID, func() any { return map[string]any{"scenario": sc} })
		res := run(t, sc, wd)
		wd.End()
		evaluate(col, sc, res)
		// fault enumeration (C04): for a systematic cell run without fault, every transport write
		// that followed the deciding input is failed once (the transport is found dead at that write)
		if i < nSys && sc.DeadAt == 0 {
			before, total, seenIn := 0, 0, 0
			nIn := 0
			for _, st := range sc.Steps {
				if st.Op == "msg" || st.Op == "coop" || st.Op == "data" {
					nIn++
				}
			}
			for _, e := range res.Evs {
				if e.Kind == "in" {
					seenIn++
				}
				if e.Kind == "write" || e.Kind == "write-refused" {
					total++
					if seenIn < nIn {
						before++
					}
				}
			}
			_ = before
			// the writes caused by the last delivered inputs: at most the last three
			for k := total; k > 0 && k > total-3; k-- {
				fs := *sc
				fs.DeadAt = k
				fs.ID = fmt.Sprintf("%s/fault-at-write-%d", sc.ID, k)
				vc.Scn(fs.ID)
				wd.Begin(fs.ID, func() any { return map[string]any{"scenario": fs} })
				fres := run(t, &fs, wd)
				wd.End()
				evaluate(col, &fs, fres)
			}
		}
		if i%2000 == 0 {
			col.Write(false)
		}
	}
	if run_.Prop == "C08" {
		// the receive loop against firing timers and application goroutines (real parallelism inside the
		// bubble): a receive call that never returns is decided by the watchdog
		n := run_.N(5000, 100000)
		for i := 0; i < n; i++ {
			if !run_.Mine(i) || total+i < start {
				continue
			}
			id := fmt.Sprintf("%s/%d/storm", engine, total+i)
			vc.Scn(id)
			wd.Begin(id, nil)
			runStorm(t, vc.NewRand(run_.Seed, engine+"-storm8", uint64(i)), id, col, "C08", wd)
			wd.End()
		}
	}
	col.Write(true)
}
