// Package shipsim1: engine B1 - one real ShipConnection in a synctest bubble; the harness is the
// remote peer, the transport and the user.
package shipsim1

import (
	"errors"
	"os"
	"fmt"
	"strings"
	"testing"
	"testing/synctest"
	"time"

	"verif/h26/simkit"
	vc "verifcommon"
)

type Step struct {
	Op     string        `json:"op"` // coop, msg, data, sleep, approve, cancel, terr, disconnect, unregister, send
	In     *simkit.Input `json:"in,omitempty"`
	D      time.Duration `json:"d,omitempty"`
	Settle bool          `json:"settle"`
	// Late: the frame was taken from the socket just before the connection got closed locally and is handed
	// to the connection afterwards (the read pump checks "closed?" before it reads, not between read and
	// delivery); at most one frame per scenario can be in that position
	Late bool `json:"late,omitempty"`
}

type Scenario struct {
	ID        string `json:"id"`
	Kind      string `json:"kind"`
	Server    bool   `json:"server"`
	Paired    bool   `json:"paired"`
	Auto      bool   `json:"auto"`
	AllowWait bool   `json:"allow_wait"`
	StoredID  string `json:"stored_id"`
	PeerID    string `json:"peer_id"` // raw json of the id the cooperative peer presents
	DeadAt    int    `json:"dead_at"`
	Steps     []Step `json:"steps"`
}

func (s *Scenario) Desc() string {
	role := "C"
	if s.Server {
		role = "S"
	}
	t := "untrusted"
	if s.Paired {
		t = "paired"
	} else if s.Auto {
		t = "auto"
	}
	if !s.AllowWait {
		t += "-nowait"
	}
	return fmt.Sprintf("%s/%s/dead%d/%d-steps", role, t, s.DeadAt, len(s.Steps))
}

type runResult struct {
	Evs       []simkit.Ev
	Wants     map[string]string
	Panicked  bool
	BubbleErr string
}

// coopFor picks the message a well-behaved peer would send in the given state.
func coopFor(state int, sc *Scenario, accessStep *int, dataN *int) *simkit.Input {
	var i simkit.Input
	switch state {
	case 2, 4:
		i = simkit.MsgInit()
	case 8, 11:
		i = simkit.HelloReady()
	case 20:
		i = simkit.ProtAnnounce()
	case 21, 22:
		i = simkit.ProtSelect()
	case 27:
		i = simkit.PinNone()
	case 36:
		if *accessStep%2 == 0 {
			i = simkit.AccessRequest(0)
		} else {
			i = simkit.AccessMethods(sc.PeerID, "")
		}
		*accessStep++
	case 38:
		*dataN++
		d, _ := simkit.Data(fmt.Sprintf("c-%d", *dataN), *dataN)
		i = d
	default:
		return nil
	}
	return &i
}

var errInjected = errors.New("injected transport error")

// run executes the scenario inside a bubble and returns the event log.
func run(t *testing.T, sc *Scenario, wd *vc.Watchdog) (res runResult) {
	res.Wants = map[string]string{}
	l := simkit.NewLog()
	res.BubbleErr = simkit.Bubble(t, func(t *testing.T) {
		ep := simkit.NewEndpoint(l, simkit.EndpointCfg{Who: "E", Server: sc.Server, Paired: sc.Paired, Auto: sc.Auto,
			AllowWait: sc.AllowWait, LocalID: "LOCAL-SHIP-ID", StoredRemoteID: sc.StoredID, DeadAt: sc.DeadAt})
		deadReported := false
		accessStep, dataN, sendN := 0, 0, 0

		call := func(name string, f func()) {
			wd.Op(name)
			defer func() {
				if p := recover(); p != nil {
					fn, trace := simkit.LibFrame(3)
					res.Panicked = true
					l.Add("E", "panic", 0, false, fn+"\n"+fmt.Sprint(p)+"\n"+strings.Join(trace, "\n"))
				}
			}()
			f()
		}
		lateUsed := false
		deliver := func(in *simkit.Input, late bool) {
			st := int(ep.Conn.VerifState())
			uid := in.UID
			if in.Class != "data" {
				uid = ""
			}
			praw, pkind := simkit.PresentedID(in.Msg)
			desc := in.Class + "|" + in.Sub + "|" + uid + "|" + pkind + "|" + praw
			if ep.W.Closed() {
				if late && !lateUsed && in.Class != "data" {
					lateUsed = true
					l.Add("E", "late-frame", st, false, in.Class+"|"+in.Sub)
					l.Add("E", "in", st, true, desc)
					call("deliver", func() { ep.Conn.HandleIncomingWebsocketMessage(in.Msg) })
					return
				}
				// the read pump of a closed connection delivers nothing any more
				l.Add("E", "in", st, false, desc)
				return
			}
			l.Add("E", "in", st, true, desc)
			call("deliver", func() { ep.Conn.HandleIncomingWebsocketMessage(in.Msg) })
		}

		call("run", func() { ep.Conn.Run() })
		synctest.Wait()
		ep.Snap("start")

		for _, st := range sc.Steps {
			// a transport found dead by a write is reported by the pump soon afterwards
			if !deadReported && ep.W.Closed() {
				if closed, err := ep.W.IsDataConnectionClosed(); closed && errors.Is(err, simkit.ErrDead) {
					deadReported = true
					l.Add("E", "terr", int(ep.Conn.VerifState()), true, "dead transport reported")
					call("terr", func() { ep.Conn.ReportConnectionError(simkit.ErrDead) })
				}
			}
			switch st.Op {
			case "coop":
				if in := coopFor(int(ep.Conn.VerifState()), sc, &accessStep, &dataN); in != nil {
					if in.Class == "data" {
						_, want := simkit.Data(in.UID, dataN)
						res.Wants[in.UID] = want
					}
					deliver(in, st.Late)
				} else {
					l.Add("E", "noop", int(ep.Conn.VerifState()), false, "coop")
				}
			case "msg":
				deliver(st.In, st.Late)
			case "data":
				dataN++
				uid := fmt.Sprintf("d-%d", dataN)
				in, want := simkit.Data(uid, dataN)
				res.Wants[uid] = want
				deliver(&in, false)
			case "data-burst":
				// a flood of early data frames (st.D carries the count)
				for k := 0; k < int(st.D); k++ {
					dataN++
					uid := fmt.Sprintf("d-%d", dataN)
					in, want := simkit.Data(uid, dataN)
					res.Wants[uid] = want
					deliver(&in, false)
				}
			case "sleep":
				l.Add("E", "sleep", int(st.D/time.Millisecond), false, st.D.String())
				time.Sleep(st.D)
			case "approve":
				l.Add("E", "approve", int(ep.Conn.VerifState()), false, "")
				ep.P.SetPairedUser(true)
				call("approve", func() { ep.Conn.ApprovePendingHandshake() })
			case "cancel", "approve-cancel":
				if st.Op == "approve-cancel" {
					// the user registers the SKI and withdraws that right away
					l.Add("E", "approve", int(ep.Conn.VerifState()), false, "")
					ep.P.SetPairedUser(true)
					call("approve", func() { ep.Conn.ApprovePendingHandshake() })
				}
				l.Add("E", "cancel", int(ep.Conn.VerifState()), false, "")
				call("cancel", func() { ep.Conn.AbortPendingHandshake() })
				ep.P.SetPairedUser(false)
			case "terr":
				if !ep.W.Closed() {
					ep.W.Kill(errInjected)
					deadReported = true
					l.Add("E", "terr", int(ep.Conn.VerifState()), true, "")
					call("terr", func() { ep.Conn.ReportConnectionError(errInjected) })
				}
			case "disconnect":
				l.Add("E", "disconnect", int(ep.Conn.VerifState()), false, "")
				call("disconnect", func() { ep.Conn.CloseConnection(true, 0, "bye") })
			case "unregister":
				l.Add("E", "unregister", int(ep.Conn.VerifState()), false, "")
				ep.P.SetPairedUser(false)
				call("unregister", func() { ep.Conn.CloseConnection(true, 4500, "User close") })
			case "send":
				if w := ep.P.SpineWriter; w != nil {
					sendN++
					p, _ := simkit.SpinePayload(fmt.Sprintf("o-%d", sendN), sendN)
					l.Add("E", "send", sendN, false, p)
					call("send", func() { w.WriteShipMessageWithPayload([]byte(p)) })
				}
			}
			if st.Settle {
				synctest.Wait()
				ep.Snap("step")
			}
		}
		synctest.Wait()
		ep.Snap("tail1")
		time.Sleep(2 * time.Second)
		synctest.Wait()
		ep.Snap("tail2")
		l.Add("E", "end", 0, false, "")
		// drain: close what is open and let every leftover timer expire
		call("final-close", func() { ep.Conn.CloseConnection(false, 0, "") })
		time.Sleep(250 * 365 * 24 * time.Hour)
		synctest.Wait()
	})
	if res.BubbleErr == simkit.RaceOrFailNow {
		res.BubbleErr = "" // the race report is in the GORACE log; the scenario itself is evaluated as usual
	}
	res.Evs = l.Events()
	return res
}

// ---- generation ---------------------------------------------------------------------------------

var sleeps = []time.Duration{time.Second, 11 * time.Second, 31 * time.Second, 61 * time.Second, 67 * time.Second, 10 * time.Minute}

// boundarySleeps end exactly when a timer armed by the previous step fires (init 10 s, hello 60 s, prolongation
// reply 66 s, waiting-30 s for the waiting values of the alphabet): the step is not settled, so the next
// operation runs at the same virtual instant as the timeout handling, in parallel with it
// In parallel only when the engine runs for C04 (parallelBoundary); for the other properties these sleeps are
// settled like every other one: the timeout is handled first, then the next operation runs.
var parallelBoundary = os.Getenv("VERIF_PROP") == "C04"

func isBoundary(d time.Duration) bool {
	for _, b := range boundarySleeps {
		if b == d {
			return true
		}
	}
	return false
}

// hasParallelBoundary: an operation of this scenario runs in parallel with a timeout handling
func (s *Scenario) hasParallelBoundary() bool {
	for i, st := range s.Steps {
		if st.Op == "sleep" && !st.Settle && i+1 < len(s.Steps) {
			return true
		}
	}
	return false
}

var boundarySleeps = []time.Duration{10 * time.Second, 60 * time.Second, 66 * time.Second, 30 * time.Second, 100 * time.Millisecond, time.Millisecond, 999 * time.Millisecond}

func coopScript(server, trusted bool) []Step {
	var s []Step
	c := Step{Op: "coop", Settle: true}
	if server && !trusted {
		s = append(s, c, c, Step{Op: "approve", Settle: true})
		for i := 0; i < 6; i++ {
			s = append(s, c)
		}
	} else {
		for i := 0; i < 8; i++ {
			s = append(s, c)
		}
	}
	s = append(s, c) // one data frame after completion
	return s
}

func randomStep(r *vc.Rand, alpha []simkit.Input) Step {
	st := Step{Settle: !r.Chance(1, 5)}
	x := r.Intn(100)
	switch {
	case x < 55:
		st.Op = "coop"
		st.Late = r.Chance(1, 12)
	case x < 65:
		in := vc.Pick(r, alpha)
		st.Op, st.In = "msg", &in
		st.Late = r.Chance(1, 12)
	case x < 75:
		in := simkit.Mutate(r, vc.Pick(r, alpha))
		st.Op, st.In = "msg", &in
	case x < 82:
		st.Op = "data"
	case x < 83:
		st.Op, st.D = "data-burst", time.Duration(vc.Pick(r, []int{3, 10, 70, 130}))
	case x < 87:
		st.Op, st.D = "sleep", vc.Pick(r, sleeps)
		if !parallelBoundary {
			// outside the C04 runs a sleep is always settled: whatever timer fires at its end is handled before
			// the next operation starts (10 minutes is a multiple of the 60 s prolongation period)
			st.Settle = true
		}
	case x < 89:
		st.Op, st.D, st.Settle = "sleep", vc.Pick(r, boundarySleeps), !parallelBoundary
	case x < 92:
		st.Op = "approve"
	case x < 93:
		st.Op = "cancel"
	case x < 94:
		st.Op = "approve-cancel"
	case x < 96:
		st.Op = "terr"
	case x < 97:
		st.Op = "disconnect"
	case x < 98:
		st.Op = "unregister"
	default:
		st.Op = "send"
	}
	return st
}

type trustCfg struct{ paired, auto, allowWait bool }

var trustCfgs = []trustCfg{{true, false, true}, {false, true, true}, {false, false, true}, {false, false, false}, {true, false, false}}

var storedIDs = []string{"", "REMOTE-SHIP-ID"}
var peerIDs = []string{`"REMOTE-SHIP-ID"`, `"OTHER-ID"`, `""`, "-", "5", "null", `"Dëmo-日本-😀"`, `"remote-ship-id"`, `"Remote-Ship-Id"`, `" REMOTE-SHIP-ID"`, `"REMOTE-SHIP-I"`}

// opsAlphabet are the non-message inputs of the systematic part.
func opsAlphabet() []Step {
	var out []Step
	for _, op := range []string{"approve", "cancel", "approve-cancel", "terr", "disconnect", "unregister", "data", "send"} {
		out = append(out, Step{Op: op, Settle: true})
	}
	for _, d := range sleeps {
		out = append(out, Step{Op: "sleep", D: d, Settle: true})
	}
	for _, d := range boundarySleeps {
		out = append(out, Step{Op: "sleep", D: d, Settle: !parallelBoundary})
	}
	for _, n := range []int{10, 70, 200} {
		out = append(out, Step{Op: "data-burst", D: time.Duration(n), Settle: true})
	}
	return out
}

// Systematic enumerates (role x trust x cooperative prefix x input) scenarios; returns the i-th or nil.
type sysSpace struct {
	alpha []simkit.Input
	ops   []Step
	cells []sysCell
}

type sysCell struct {
	server bool
	tc     trustCfg
	prefix int
	input  int // index into alpha (+ops)
	dead   int
}

func newSysSpace() *sysSpace {
	sp := &sysSpace{alpha: simkit.Alphabet("REMOTE-SHIP-ID"), ops: opsAlphabet()}
	for _, server := range []bool{true, false} {
		for _, tc := range trustCfgs {
			if !server && (tc.auto || !tc.allowWait && tc.paired) {
				continue // the client role ignores the trust configuration except for waiting
			}
			script := coopScript(server, tc.paired || tc.auto)
			for p := 0; p <= len(script); p++ {
				for i := 0; i < len(sp.alpha)+len(sp.ops); i++ {
					sp.cells = append(sp.cells, sysCell{server: server, tc: tc, prefix: p, input: i})
				}
			}
			// single write fault at every write index of a cooperative run (C04 fault sweep)
			for k := 1; k <= 9; k++ {
				sp.cells = append(sp.cells, sysCell{server: server, tc: tc, prefix: len(script), input: -1, dead: k})
			}
		}
	}
	return sp
}

func (sp *sysSpace) build(idx int, r *vc.Rand) *Scenario {
	c := sp.cells[idx%len(sp.cells)]
	sc := &Scenario{Kind: "sys", Server: c.server, Paired: c.tc.paired, Auto: c.tc.auto, AllowWait: c.tc.allowWait,
		StoredID: vc.Pick(r, storedIDs), PeerID: `"REMOTE-SHIP-ID"`, DeadAt: c.dead}
	script := coopScript(c.server, c.tc.paired || c.tc.auto)
	sc.Steps = append(sc.Steps, script[:c.prefix]...)
	if c.input >= 0 {
		if c.input < len(sp.alpha) {
			in := sp.alpha[c.input]
			sc.Steps = append(sc.Steps, Step{Op: "msg", In: &in, Settle: true})
		} else {
			sc.Steps = append(sc.Steps, sp.ops[c.input-len(sp.alpha)])
		}
	}
	if n := len(sc.Steps); n > 0 && sc.Steps[n-1].Op == "sleep" && isBoundary(sc.Steps[n-1].D) {
		sc.Steps = append(sc.Steps, Step{Op: vc.Pick(r, []string{"disconnect", "unregister", "terr", "cancel", "approve", "coop"}), Settle: true})
	}
	if n := len(sc.Steps); n > 0 && r.Chance(1, 2) {
		switch sc.Steps[n-1].Op {
		case "disconnect", "unregister", "terr":
			// the frame the pump already held when the connection was closed, then whatever follows
			sc.Steps = append(sc.Steps, Step{Op: "coop", Settle: true, Late: true})
			if r.Bool() {
				in := vc.Pick(r, sp.alpha)
				sc.Steps[len(sc.Steps)-1] = Step{Op: "msg", In: &in, Settle: true, Late: true}
			}
		}
	}
	if r.Chance(1, 3) {
		// a peer (and a user) that simply carry on with the handshake afterwards: the rest of the cooperative
		// script, which contains the user's approval where one is needed
		sc.Steps = append(sc.Steps, script[c.prefix:]...)
		for i := 0; i < 3; i++ {
			sc.Steps = append(sc.Steps, Step{Op: "coop", Settle: true})
		}
		return sc
	}
	for i := 0; i < r.Intn(6); i++ {
		sc.Steps = append(sc.Steps, randomStep(r, sp.alpha))
	}
	return sc
}

func randomScenario(r *vc.Rand, alpha []simkit.Input) *Scenario {
	tc := vc.Pick(r, trustCfgs)
	sc := &Scenario{Kind: "rand", Server: r.Chance(2, 3), Paired: tc.paired, Auto: tc.auto, AllowWait: tc.allowWait,
		StoredID: vc.Pick(r, storedIDs), PeerID: `"REMOTE-SHIP-ID"`}
	if r.Chance(1, 3) {
		sc.PeerID = vc.Pick(r, peerIDs)
	}
	if r.Chance(3, 20) {
		sc.DeadAt = r.Range(1, 10)
	}
	n := r.Range(1, 24)
	for i := 0; i < n; i++ {
		sc.Steps = append(sc.Steps, randomStep(r, alpha))
	}
	return sc
}
