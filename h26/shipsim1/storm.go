package shipsim1

import (
	"fmt"
	"sync"
	"testing"
	"testing/synctest"
	"time"

	"verif/h26/simkit"
	vc "verifcommon"
)

// C20 workload for one ShipConnection: the three goroutine kinds that touch a connection in real
// use run concurrently inside a bubble - the read pump (delivering hello/handshake messages with
// waiting values that arm timers of 0 s .. 30 s), handshake timers firing, and application
// goroutines (approve, cancel, state queries, the answer to "allow waiting" changing, SPINE sends,
// closes). The oracle is the race detector; the harness only keeps the protocol moving.
func runStorm(t *testing.T, r *vc.Rand, id string, col *vc.Collector, prop string, wd *vc.Watchdog) {
	col.Eval(prop, 1)
	server := r.Chance(3, 4)
	paired := r.Chance(1, 3)
	if r.Chance(1, 2) {
		paired = false // pending-listen needs an untrusted peer
	}
	alpha := []simkit.Input{
		simkit.HelloReady(), simkit.HelloPending(), simkit.Hello(`"ready"`, "30000", ""), simkit.Hello(`"ready"`, "30001", ""), simkit.Hello(`"ready"`, "31000", ""),
		simkit.Hello(`"pending"`, "30000", ""), simkit.Hello(`"pending"`, "30005", ""), simkit.Hello(`"pending"`, "", "true"), simkit.Hello(`"ready"`, "60000", ""),
		simkit.ProtAnnounce(), simkit.ProtSelect(), simkit.PinNone(), simkit.AccessRequest(0), simkit.AccessMethods(`"R"`, ""),
		// messages that end the hello phase while a short timer may be firing
		simkit.Hello(`"aborted"`, "", ""), simkit.Hello(`"pending"`, "30100", ""), simkit.Hello(`"pending"`, "30000", ""), simkit.Hello(`"aborted"`, "", ""),
		simkit.Close(`"announce"`, ""),
	}
	seq := make([]simkit.Input, 0, 24)
	n := r.Range(4, 24)
	for i := 0; i < n; i++ {
		seq = append(seq, vc.Pick(r, alpha))
	}
	targeted := r.Chance(1, 2)
	if targeted {
		// a waiting value that arms a timer of 0..100 ms, directly followed by a message that ends or moves the
		// hello phase: the timer fires while that message is being handled
		w := vc.Pick(r, []string{"30000", "30000", "30001", "30002", "30005", "30010", "30050", "30100"})
		first := vc.Pick(r, []simkit.Input{simkit.Hello(`"pending"`, w, ""), simkit.Hello(`"ready"`, w, "")})
		second := vc.Pick(r, []simkit.Input{simkit.Hello(`"aborted"`, "", ""), simkit.Hello(`"aborted"`, "", ""), simkit.HelloReady(), simkit.HelloPending(), simkit.Close(`"announce"`, ""), simkit.Hello(`"pending"`, "", "true")})
		seq = append([]simkit.Input{first, second}, seq[:min(len(seq), 4)]...)
		server = true
	}
	apiOps := make([]int, r.Range(3, 16))
	for i := range apiOps {
		apiOps[i] = r.Intn(9)
	}
	gaps := []time.Duration{0, 0, time.Millisecond, 5 * time.Millisecond, time.Second, 30 * time.Second}
	rgap := make([]time.Duration, len(seq))
	for i := range rgap {
		rgap[i] = vc.Pick(r, gaps)
	}
	if !targeted && r.Chance(1, 3) && len(seq) >= 2 {
		// a message with a waiting value handled exactly when the 60 s hello timer (or the 10 s init timer) fires,
		// the application no longer willing to wait
		seq[0] = vc.Pick(r, []simkit.Input{simkit.HelloPending(), simkit.Hello(`"pending"`, "60000", ""), simkit.Hello(`"ready"`, "60000", "")})
		seq[1] = vc.Pick(r, []simkit.Input{simkit.Hello(`"pending"`, "60000", ""), simkit.Hello(`"ready"`, "45000", ""), simkit.Hello(`"pending"`, "31000", ""), simkit.HelloReady()})
		rgap[0] = vc.Pick(r, []time.Duration{60 * time.Second, 60 * time.Second, 30 * time.Second, 10 * time.Second, 66 * time.Second})
		server, paired = true, false
		if len(apiOps) > 0 {
			apiOps[0] = 3
		}
	}
	if targeted {
		rgap[0] = vc.Pick(r, []time.Duration{0, 0, 0, time.Millisecond, 2 * time.Millisecond, 5 * time.Millisecond, 10 * time.Millisecond, 50 * time.Millisecond, 100 * time.Millisecond})
	}
	agap := make([]time.Duration, len(apiOps))
	for i := range agap {
		agap[i] = vc.Pick(r, gaps)
	}
	col.Class(prop, fmt.Sprintf("ship-storm:server=%v:paired=%v:msgs=%d:api=%d", server, paired, len(seq)/6*6, len(apiOps)/4*4))
	_ = simkit.Bubble(t, func(t *testing.T) {
		l := simkit.NewLog()
		ep := simkit.NewEndpoint(l, simkit.EndpointCfg{Who: "E", Server: server, Paired: paired, AllowWait: true, LocalID: "L"})
		ep.Conn.Run()
		var wg sync.WaitGroup
		wg.Add(2)
		go func() { // read pump
			defer wg.Done()
			wd.Op("deliver")
			ep.Conn.HandleIncomingWebsocketMessage(simkit.MsgInit().Msg)
			for i, in := range seq {
				if ep.W.Closed() {
					return
				}
				ep.Conn.HandleIncomingWebsocketMessage(in.Msg)
				time.Sleep(rgap[i])
			}
		}()
		go func() { // application
			defer wg.Done()
			for i, op := range apiOps {
				switch op {
				case 0:
					ep.P.SetPairedUser(true)
					ep.Conn.ApprovePendingHandshake()
				case 1:
					ep.Conn.AbortPendingHandshake()
				case 2:
					_, _ = ep.Conn.ShipHandshakeState()
				case 3:
					ep.P.SetAllowWait(false)
				case 4:
					ep.P.SetAllowWait(true)
				case 5:
					if w := ep.P.Writer(); w != nil {
						w.WriteShipMessageWithPayload([]byte(`{"datagram":{"id":"storm"}}`))
					}
				case 6:
					_ = ep.Conn.RemoteSKI()
					_ = ep.Conn.DataHandler()
				case 7:
					if i > len(apiOps)/2 {
						ep.Conn.CloseConnection(true, 0, "storm")
					}
				case 8:
					_ = ep.Conn.VerifState()
				}
				time.Sleep(agap[i])
			}
		}()
		wg.Wait()
		time.Sleep(3 * time.Minute)
		synctest.Wait()
		ep.Conn.CloseConnection(false, 0, "")
		time.Sleep(250 * 365 * 24 * time.Hour)
		synctest.Wait()
	})
}
