package shipsim1

import (
	"fmt"
	"sync"
	"testing"
	"testing/synctest"
	"time"

	"verif/h26/simkit"
	vc "verifcommon"
)

// C20 workload for one ShipConnection: the three goroutine kinds that touch a connection in real
// use run concurrently inside a bubble - the read pump (delivering hello/handshake messages with
// waiting values that arm timers of 0 s .. 30 s), handshake timers firing, and application
// goroutines (approve, cancel, state queries, the answer to "allow waiting" changing, SPINE sends,
// closes). The oracle is the race detector; the harness only keeps the protocol moving.
func runStorm(t *testing.T, r *vc.Rand, id string, col *vc.Collector, prop string, wd *vc.Watchdog) {
	col.Eval(prop, 1)
	server := r.Chance(3, 4)
	paired := r.Chance(1, 3)
	alpha := []simkit.Input{
		simkit.HelloReady(), simkit.HelloPending(), simkit.Hello(`"ready"`, "30000", ""), simkit.Hello(`"ready"`, "30001", ""), simkit.Hello(`"ready"`, "31000", ""),
		simkit.Hello(`"pending"`, "30000", ""), simkit.Hello(`"pending"`, "30005", ""), simkit.Hello(`"pending"`, "", "true"), simkit.Hello(`"ready"`, "60000", ""),
		simkit.ProtAnnounce(), simkit.ProtSelect(), simkit.PinNone(), simkit.AccessRequest(0), simkit.AccessMethods(`"R"`, ""),
		// messages that end the hello phase while a short timer may be firing
		simkit.Hello(`"aborted"`, "", ""), simkit.Hello(`"pending"`, "30100", ""), simkit.Hello(`"pending"`, "30000", ""), simkit.Hello(`"aborted"`, "", ""),
		simkit.Close(`"announce"`, ""),
	}
	seq := make([]simkit.Input, 0, 24)
	n := r.Range(4, 24)
	for i := 0; i < n; i++ {
		seq = append(seq, vc.Pick(r, alpha))
	}
	apiOps := make([]int, r.Range(3, 16))
	for i := range apiOps {
		apiOps[i] = r.Intn(9)
	}
	gaps := []time.Duration{0, 0, time.Millisecond, 5 * time.Millisecond, time.Second, 30 * time.Second}
	rgap := make([]time.Duration, len(seq))
	for i := range rgap {
		rgap[i] = vc.Pick(r, gaps)
	}
	agap := make([]time.Duration, len(apiOps))
	for i := range agap {
		agap[i] = vc.Pick(r, gaps)
	}
	col.Class(prop, fmt.Sprintf("ship-storm:server=%v:paired=%v:msgs=%d:api=%d", server, paired, len(seq)/6*6, len(apiOps)/4*4))
	_ = simkit.Bubble(t, func(t *testing.T) {
		l := simkit.NewLog()
		ep := simkit.NewEndpoint(l, simkit.EndpointCfg{Who: "E", Server: server, Paired: paired, AllowWait: true, LocalID: "L"})
		ep.Conn.Run()
		var wg sync.WaitGroup
		wg.Add(2)
		go func() { // read pump
			defer wg.Done()
			wd.Op("deliver")
			ep.Conn.HandleIncomingWebsocketMessage(simkit.MsgInit().Msg)
			for i, in := range seq {
				if ep.W.Closed() {
					return
				}
				ep.Conn.HandleIncomingWebsocketMessage(in.Msg)
				time.Sleep(rgap[i])
			}
		}()
		go func() { // application
			defer wg.Done()
			for i, op := range apiOps {
				switch op {
				case 0:
					ep.P.SetPairedUser(true)
					ep.Conn.ApprovePendingHandshake()
				case 1:
					ep.Conn.AbortPendingHandshake()
				case 2:
					_, _ = ep.Conn.ShipHandshakeState()
				case 3:
					ep.P.SetAllowWait(false)
				case 4:
					ep.P.SetAllowWait(true)
				case 5:
					if w := ep.P.Writer(); w != nil {
						w.WriteShipMessageWithPayload([]byte(`{"datagram":{"id":"storm"}}`))
					}
				case 6:
					_ = ep.Conn.RemoteSKI()
					_ = ep.Conn.DataHandler()
				case 7:
					if i > len(apiOps)/2 {
						ep.Conn.CloseConnection(true, 0, "storm")
					}
				case 8:
					_ = ep.Conn.VerifState()
				}
				time.Sleep(agap[i])
			}
		}()
		wg.Wait()
		time.Sleep(3 * time.Minute)
		synctest.Wait()
		ep.Conn.CloseConnection(false, 0, "")
		time.Sleep(250 * 365 * 24 * time.Hour)
		synctest.Wait()
	})
}
