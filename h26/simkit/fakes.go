package simkit

import (
	"errors"
	"sync"

	"github.com/enbility/ship-go/api"
	"github.com/enbility/ship-go/model"
	"github.com/enbility/ship-go/ship"
)

// FakeWriter is the in-memory transport below one ShipConnection
// (api.WebsocketDataWriterInterface). Behaviour mirrors ws.WebsocketConnection:
// a write is accepted unless the connection is closed; once closed every write returns an
// error and IsDataConnectionClosed reports (true, non-nil).
type FakeWriter struct {
	Who string
	L   *Log

	mu        sync.Mutex
	reader    api.WebsocketDataReaderInterface
	closed    bool
	closedErr error
	writes    int      // write calls so far
	DeadAt    int      // the transport is found dead at this write call (1-based), 0 = never
	Out       [][]byte // accepted frames not yet taken by the harness (FIFO towards the peer)
	Accepted  int
	CloseCall int    // CloseDataConnection calls
	OnWrite   func() // called after an accepted write or a close (harness wake-up)
}

var ErrDead = errors.New("transport dead")

func (w *FakeWriter) InitDataProcessing(r api.WebsocketDataReaderInterface) {
	w.mu.Lock()
	w.reader = r
	w.mu.Unlock()
}

func (w *FakeWriter) WriteMessageToWebsocketConnection(msg []byte) error {
	w.mu.Lock()
	w.writes++
	if !w.closed && w.DeadAt != 0 && w.writes >= w.DeadAt {
		w.closed = true
		w.closedErr = ErrDead
	}
	if w.closed {
		w.mu.Unlock()
		w.L.Add(w.Who, "write-refused", len(msg), false, string(msg))
		return errors.New("connection is closed")
	}
	w.Out = append(w.Out, append([]byte(nil), msg...))
	w.Accepted++
	// logged under the queue's lock: the log order of accepted writes is the queue order
	w.L.Add(w.Who, "write", len(msg), true, string(msg))
	w.mu.Unlock()
	if w.OnWrite != nil {
		w.OnWrite()
	}
	return nil
}

func (w *FakeWriter) CloseDataConnection(closeCode int, reason string) {
	w.mu.Lock()
	w.closed = true
	w.CloseCall++
	w.mu.Unlock()
	w.L.Add(w.Who, "closeData", closeCode, false, reason)
	if w.OnWrite != nil {
		w.OnWrite()
	}
}

func (w *FakeWriter) IsDataConnectionClosed() (bool, error) {
	w.mu.Lock()
	defer w.mu.Unlock()
	if w.closed {
		if w.closedErr != nil {
			return true, w.closedErr
		}
		return true, errors.New("connection is closed")
	}
	return false, nil
}

// Kill marks the transport as failed (what the ws pumps do before they report the error).
func (w *FakeWriter) Kill(err error) {
	w.mu.Lock()
	if !w.closed {
		w.closed = true
		w.closedErr = err
	}
	w.mu.Unlock()
}

func (w *FakeWriter) Closed() bool {
	w.mu.Lock()
	defer w.mu.Unlock()
	return w.closed
}

// Take removes and returns the frames accepted so far.
func (w *FakeWriter) Take() [][]byte {
	w.mu.Lock()
	defer w.mu.Unlock()
	out := w.Out
	w.Out = nil
	return out
}

// TakeOne removes the oldest accepted frame.
func (w *FakeWriter) TakeOne() ([]byte, bool) {
	w.mu.Lock()
	defer w.mu.Unlock()
	if len(w.Out) == 0 {
		return nil, false
	}
	m := w.Out[0]
	w.Out = w.Out[1:]
	return m, true
}

func (w *FakeWriter) Pending() int {
	w.mu.Lock()
	defer w.mu.Unlock()
	return len(w.Out)
}

// Reader records SPINE payloads handed to the application.
type Reader struct {
	Who string
	L   *Log
}

func (r *Reader) HandleShipPayloadMessage(msg []byte) {
	r.L.Add(r.Who, "payload", len(msg), false, string(msg))
}

// Provider is the recording info provider; its answers mirror what hub.Hub answers.
type Provider struct {
	Who string
	L   *Log

	mu          sync.Mutex
	pairedUser  bool // the user registered the SKI
	pairedHello bool // the hub marks a service trusted when hello-ok is reported
	auto        bool
	allowWait   bool
	reader      *Reader
	SpineWriter api.ShipConnectionDataWriterInterface
	OnState     func(model.ShipState)
	OnEvent     func() // harness wake-up
	OnSetup     func() // runs inside the setup callback, after the writer is known
}

func (p *Provider) Writer() api.ShipConnectionDataWriterInterface {
	p.mu.Lock()
	defer p.mu.Unlock()
	return p.SpineWriter
}

func NewProvider(who string, l *Log, paired, auto, allowWait bool) *Provider {
	return &Provider{Who: who, L: l, pairedUser: paired, auto: auto, allowWait: allowWait, reader: &Reader{Who: who, L: l}}
}

func (p *Provider) SetPairedUser(v bool) {
	p.mu.Lock()
	p.pairedUser = v
	if !v {
		p.pairedHello = false
	}
	p.mu.Unlock()
}

func (p *Provider) SetAllowWait(v bool) {
	p.mu.Lock()
	p.allowWait = v
	p.mu.Unlock()
}

func (p *Provider) SetAuto(v bool) {
	p.mu.Lock()
	p.auto = v
	p.mu.Unlock()
}

func (p *Provider) IsRemoteServiceForSKIPaired(string) bool {
	p.mu.Lock()
	user, hello := p.pairedUser, p.pairedHello
	p.mu.Unlock()
	// B: answered true because of a user decision; answers that are true only because the hub
	// itself set trusted on hello-ok are logged with B=false, S="hello-ok"
	if user {
		p.L.Add(p.Who, "q:paired", 1, true, "user")
	} else if hello {
		p.L.Add(p.Who, "q:paired", 1, false, "hello-ok")
	} else {
		p.L.Add(p.Who, "q:paired", 0, false, "")
	}
	return user || hello
}

func (p *Provider) IsAutoAcceptEnabled() bool {
	p.mu.Lock()
	a := p.auto
	p.mu.Unlock()
	n := 0
	if a {
		n = 1
	}
	p.L.Add(p.Who, "q:auto", n, a, "")
	return a
}

func (p *Provider) HandleConnectionClosed(c api.ShipConnectionInterface, handshakeEnd bool) {
	p.L.Add(p.Who, "closed", 0, handshakeEnd, "")
}

func (p *Provider) ReportServiceShipID(ski string, id string) {
	p.L.Add(p.Who, "shipid", 0, false, id)
}

func (p *Provider) AllowWaitingForTrust(string) bool {
	p.mu.Lock()
	v := p.pairedUser || p.pairedHello || p.allowWait
	p.mu.Unlock()
	p.L.Add(p.Who, "q:wait", 0, v, "")
	return v
}

func (p *Provider) HandleShipHandshakeStateUpdate(ski string, state model.ShipState) {
	es := ""
	if state.Error != nil {
		es = state.Error.Error()
	}
	p.L.Add(p.Who, "state", int(state.State), state.Error != nil, es)
	if state.State == model.SmeHelloStateOk {
		p.mu.Lock()
		p.pairedHello = true
		p.mu.Unlock()
	}
	if p.OnState != nil {
		p.OnState(state)
	}
	if p.OnEvent != nil {
		p.OnEvent()
	}
}

func (p *Provider) SetupRemoteDevice(ski string, w api.ShipConnectionDataWriterInterface) api.ShipConnectionDataReaderInterface {
	p.mu.Lock()
	p.SpineWriter = w
	p.mu.Unlock()
	p.L.Add(p.Who, "setup", 0, false, ski)
	if p.OnSetup != nil {
		p.OnSetup()
	}
	return p.reader
}

// Endpoint bundles one real ShipConnection with its fakes.
type Endpoint struct {
	Who    string
	Server bool
	Conn   *ship.ShipConnection
	W      *FakeWriter
	P      *Provider
	L      *Log
}

type EndpointCfg struct {
	Who                     string
	Server                  bool
	Paired, Auto, AllowWait bool
	LocalID, StoredRemoteID string
	RemoteSKI               string
	DeadAt                  int
}

func NewEndpoint(l *Log, c EndpointCfg) *Endpoint {
	w := &FakeWriter{Who: c.Who, L: l, DeadAt: c.DeadAt}
	p := NewProvider(c.Who, l, c.Paired, c.Auto, c.AllowWait)
	role := ship.ShipRoleClient
	if c.Server {
		role = ship.ShipRoleServer
	}
	ski := c.RemoteSKI
	if ski == "" {
		ski = "remote-ski-of-" + c.Who
	}
	conn := ship.NewConnectionHandler(p, w, role, c.LocalID, ski, c.StoredRemoteID)
	return &Endpoint{Who: c.Who, Server: c.Server, Conn: conn, W: w, P: p, L: l}
}

// Snap logs and returns a snapshot (call at quiescence).
func (e *Endpoint) Snap(tag string) ship.VerifSnapshot {
	s := e.Conn.VerifSnapshot()
	flags := ""
	if s.TimerRunning {
		flags += "T"
	}
	if s.ReaderSet {
		flags += "R"
	}
	if e.W.Closed() {
		flags += "X"
	}
	e.L.Add(e.Who, "snap", int(s.State), s.TimerRunning, tag+"|"+flags)
	return s
}
