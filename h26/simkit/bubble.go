package simkit

import (
	"fmt"
	"testing"
	"testing/synctest"
)

// RaceOrFailNow is returned by Bubble when the bubble's test was marked failed without a panic
// (the race detector flagged it, or FailNow was called): synctest.Test then calls FailNow on the
// caller, which must not end the whole engine. The race itself is in the GORACE log.
const RaceOrFailNow = "bubble test marked failed (race detector report or FailNow)"

// Bubble runs f inside a synctest bubble on a helper goroutine, so that neither the "blocked
// goroutines remain" panic nor a FailNow issued by synctest.Test ends the engine.
func Bubble(t *testing.T, f func(t *testing.T)) (bubbleErr string) {
	done := make(chan struct{})
	go func() {
		defer close(done)
		completed := false
		defer func() {
			if p := recover(); p != nil {
				bubbleErr = fmt.Sprint(p)
			} else if !completed {
				bubbleErr = RaceOrFailNow
			}
		}()
		synctest.Test(t, f)
		completed = true
	}()
	<-done
	return bubbleErr
}
