package simkit

import (
	"encoding/json"
	"fmt"
	"strings"

	vc "verifcommon"
)

// SHIP messages in EEBUS wire form (header byte + EEBUS json).

const (
	hInit    = "\x00"
	hControl = "\x01"
	hData    = "\x02"
	hEnd     = "\x03"
)

type Input struct {
	Class string // coarse class (bucket key)
	Sub   string // variant inside the class
	Msg   []byte
	UID   string // for data frames: the unique id
}

func in(class, sub, s string) Input { return Input{Class: class, Sub: sub, Msg: []byte(s)} }

func MsgInit() Input { return in("cmi", "ok", "\x00\x00") }

func Hello(phase string, waiting, prolong string) Input {
	parts := []string{}
	if phase != "-" {
		parts = append(parts, fmt.Sprintf(`{"phase":%s}`, phase))
	}
	if waiting != "" {
		parts = append(parts, fmt.Sprintf(`{"waiting":%s}`, waiting))
	}
	if prolong != "" {
		parts = append(parts, fmt.Sprintf(`{"prolongationRequest":%s}`, prolong))
	}
	sub := fmt.Sprintf("%s/w=%s/p=%s", strings.Trim(phase, `"`), waiting, prolong)
	return in("hello", sub, hControl+`{"connectionHello":[`+strings.Join(parts, ",")+`]}`)
}

func HelloReady() Input   { return Hello(`"ready"`, "60000", "") }
func HelloPending() Input { return Hello(`"pending"`, "60000", "") }
func HelloAborted() Input { return Hello(`"aborted"`, "", "") }

func Protocol(htype, version, formats string) Input {
	parts := []string{}
	if htype != "-" {
		parts = append(parts, fmt.Sprintf(`{"handshakeType":%s}`, htype))
	}
	if version != "-" {
		parts = append(parts, fmt.Sprintf(`{"version":%s}`, version))
	}
	if formats != "-" {
		parts = append(parts, fmt.Sprintf(`{"formats":%s}`, formats))
	}
	sub := fmt.Sprintf("%s/v=%s/f=%s", strings.Trim(htype, `"`), version, formats)
	return in("protocol", sub, hControl+`{"messageProtocolHandshake":[`+strings.Join(parts, ",")+`]}`)
}

const (
	v10      = `[{"major":1},{"minor":0}]`
	fmtUTF8  = `[{"format":["JSON-UTF8"]}]`
	fmtUTF16 = `[{"format":["JSON-UTF16"]}]`
)

func ProtAnnounce() Input { return Protocol(`"announceMax"`, v10, fmtUTF8) }
func ProtSelect() Input   { return Protocol(`"select"`, v10, fmtUTF8) }

func ProtError(n int) Input {
	return in("protocol", fmt.Sprintf("error%d", n), fmt.Sprintf("%s{\"messageProtocolHandshakeError\":[{\"error\":%d}]}", hControl, n))
}

func Pin(state string, extra string) Input {
	body := fmt.Sprintf(`[{"pinState":%s}%s]`, state, extra)
	if state == "-" {
		body = "[]"
	}
	return in("pin", strings.Trim(state, `"`)+extra, hControl+`{"connectionPinState":`+body+`}`)
}

func PinNone() Input { return Pin(`"none"`, "") }

func AccessRequest(variant int) Input {
	switch variant {
	case 1:
		return in("access-req", "nonempty", hControl+`{"accessMethodsRequest":[{"x":1}]}`)
	case 2:
		return in("access-req", "ws", hControl+`{"accessMethodsRequest": []}`)
	}
	return in("access-req", "ok", hControl+`{"accessMethodsRequest":[]}`)
}

// AccessMethods with the id given as raw json ("-" = member missing)
func AccessMethods(idJSON string, extra string) Input {
	body := "[]"
	if idJSON != "-" {
		body = fmt.Sprintf(`[{"id":%s}%s]`, idJSON, extra)
	} else if extra != "" {
		body = "[" + strings.TrimPrefix(extra, ",") + "]"
	}
	i := in("access", "id="+idJSON+extra, hControl+`{"accessMethods":`+body+`}`)
	if len(i.Sub) > 40 {
		i.Sub = i.Sub[:40]
	}
	i.UID = idJSON
	return i
}

func Close(phase string, extra string) Input {
	return in("close", strings.Trim(phase, `"`)+extra, hEnd+`{"connectionClose":[{"phase":`+phase+`}`+extra+`]}`)
}

// Data builds a SPINE data frame whose payload carries the unique id; Want is the payload the
// application must receive (standard JSON form).
func Data(uid string, n int) (Input, string) {
	msg := fmt.Sprintf(`%s{"data":[{"header":[{"protocolId":"ee1.0"}]},{"payload":{"datagram":[{"id":"%s"},{"n":%d},{"list":[1,2,[{"k":[{"a":true}]}]]}]}}]}`, hData, uid, n)
	want := fmt.Sprintf(`{"datagram":{"id":"%s","n":%d,"list":[1,2,{"k":{"a":true}}]}}`, uid, n)
	i := in("data", "ok", msg)
	i.UID = uid
	return i, want
}

// SpinePayload is what an application hands to the SPINE writer; WantPayload what the peer application must get.
func SpinePayload(uid string, n int) (string, string) {
	p := fmt.Sprintf(`{"datagram":{"id":"%s","n":%d,"list":[1,2,{"k":{"a":true}}]}}`, uid, n)
	return p, p
}

func DataVariants(uid string) []Input {
	return []Input{
		in("data-bad", "nopayload", hData+`{"data":[{"header":[{"protocolId":"ee1.0"}]}]} datagram`),
		in("data-bad", "bare", hData+`{"datagram":[{"id":"`+uid+`"}]}`),
		in("data-bad", "scalar-payload", hData+`{"data":[{"header":[{"protocolId":"ee1.0"}]},{"payload":"datagram"}]}`),
		in("data-bad", "null-payload", hData+`{"data":[{"header":[{"protocolId":"ee1.0"}]},{"payload":null}]} datagram`),
		in("data-bad", "control-header", hControl+`{"data":[{"header":[{"protocolId":"ee1.0"}]},{"payload":{"datagram":[{"id":"x`+uid+`"}]}}]}`),
		in("data-bad", "garbage", hData+`datagram{{{`),
	}
}

// Alphabet returns the structured hostile inputs (Appendix B of DESIGN.md), independent of state.
func Alphabet(storedID string) []Input {
	var a []Input
	// CMI
	a = append(a, MsgInit(), in("cmi", "type1", "\x00\x01"), in("cmi", "hdr1", "\x01\x00"), in("cmi", "long", "\x00\x00\x00\x00"),
		in("cmi", "text", "\x00abc"))
	// hello
	for _, ph := range []string{`"ready"`, `"pending"`, `"aborted"`, `"other"`, "-", `5`} {
		a = append(a, Hello(ph, "", ""))
	}
	for _, w := range []string{"0", "500", "999", "1000", "29999", "30000", "60000", "4294967295", "18446744073709551615", "-1", `"x"`, "1.5"} {
		a = append(a, Hello(`"ready"`, w, ""), Hello(`"pending"`, w, ""))
	}
	for _, p := range []string{"true", "false", `"x"`, "null"} {
		a = append(a, Hello(`"pending"`, "", p), Hello(`"pending"`, "60000", p), Hello(`"ready"`, "60000", p))
	}
	// protocol
	for _, ht := range []string{`"announceMax"`, `"select"`, `"other"`, "-"} {
		a = append(a, Protocol(ht, v10, fmtUTF8))
	}
	for _, v := range []string{`[{"major":1},{"minor":1}]`, `[{"major":2},{"minor":0}]`, "-", `[{"major":256},{"minor":0}]`, `[]`, `"1.0"`} {
		a = append(a, Protocol(`"select"`, v, fmtUTF8), Protocol(`"announceMax"`, v, fmtUTF8))
	}
	for _, f := range []string{fmtUTF16, `[{"format":["JSON-UTF8","JSON-UTF16"]}]`, `[{"format":[]}]`, `[{"format":[ ]}]`, `[{"format":[null]}]`, "-", `"JSON-UTF8"`, `[]`, `[ ]`, `[{"format":"JSON-UTF8"}]`} {
		a = append(a, Protocol(`"select"`, v10, f), Protocol(`"announceMax"`, v10, f))
	}
	for n := 0; n < 4; n++ {
		a = append(a, ProtError(n))
	}
	// pin
	for _, s := range []string{`"none"`, `"required"`, `"optional"`, `"pinOk"`, `"other"`, "-", "7"} {
		a = append(a, Pin(s, ""))
	}
	a = append(a, Pin(`"none"`, `,{"inputPermission":"ok"}`), Pin(`"required"`, `,{"inputPermission":"busy"}`))
	// access
	a = append(a, AccessRequest(0), AccessRequest(1), AccessRequest(2))
	ids := []string{`"` + storedID + `"`, `"OTHER-ID"`, `""`, "-", "5", "null", `"` + strings.Repeat("L", 4096) + `"`, `"Dëmo-日本-😀"`, `"datagram"`, `["x"]`,
		// near misses of the stored id: case, surrounding blanks, prefix, suffix
		`"` + strings.ToLower(storedID) + `"`, `" ` + storedID + `"`, `"` + storedID + ` "`, `"` + storedID[:len(storedID)-1] + `"`, `"` + storedID + `X"`}
	for _, id := range ids {
		a = append(a, AccessMethods(id, ""))
	}
	a = append(a, AccessMethods(`"`+storedID+`"`, `,{"dnsSd_mDns":[]}`), AccessMethods(`"`+storedID+`"`, `,{"dns":[{"uri":"wss://x"}]}`))
	// close
	for _, ph := range []string{`"announce"`, `"confirm"`, `"other"`} {
		a = append(a, Close(ph, ""), Close(ph, `,{"maxTime":500},{"reason":"unspecific"}`))
	}
	a = append(a, Close(`"announce"`, `,{"maxTime":"x"}`))
	// data
	a = append(a, DataVariants("alpha")...)
	// junk
	a = append(a, in("junk", "braces", hControl+"{}"), in("junk", "brackets", hControl+"[]"), in("junk", "nul", hControl+"\x00\x00\x00"),
		in("junk", "deep", hControl+strings.Repeat("[{\"a\":", 600)+"1"+strings.Repeat("}]", 600)),
		in("junk", "deep-arr", hControl+strings.Repeat("[", 12000)),
		in("junk", "text", hControl+"hello world"), in("junk", "two", "\x01\x00"), in("junk", "hdr9", "\x09{}"),
		in("junk", "unterminated", hControl+`{"connectionHello":[{"phase":"rea`),
		in("junk", "string-brackets", hControl+`{"connectionHello":[{"phase":"[{},{}]"}]}`),
		in("junk", "bignum", hControl+`{"connectionHello":[{"phase":"ready"},{"waiting":1e999}]}`),
		in("junk", "dupkeys", hControl+`{"connectionHello":[{"phase":"ready"},{"phase":"pending"},{"waiting":1},{"waiting":60000}]}`),
		in("junk", "plainjson", hControl+`{"connectionHello":{"phase":"ready","waiting":60000}}`),
		in("junk", "ff", "\xff\xfe\xfd\xfc"))
	// lexical: strings, quotes and escapes at the places where a scanner of the wire form may run off
	a = append(a, in("lex", "quote-backslash-end", hControl+`"\`), in("lex", "backslash-only", hControl+`\`), in("lex", "quote-only", hControl+`"`),
		in("lex", "open-string-backslash", hControl+`{"connectionHello":[{"phase":"ready\`),
		in("lex", "open-string-2backslash", hControl+`{"connectionHello":[{"phase":"ready\\`),
		in("lex", "open-string-3backslash", hControl+`{"connectionHello":[{"phase":"ready\\\`),
		in("lex", "escaped-quote-end", hControl+`{"connectionHello":[{"phase":"ready\"`),
		in("lex", "backslash-quote-value", hControl+`{"connectionHello":[{"phase":"\\\"ready"},{"waiting":60000}]}`),
		in("lex", "odd-backslashes", hControl+`{"connectionHello":[{"phase":"a\\\"b\\\\\"c"}]}`),
		in("lex", "bad-escape", hControl+`{"connectionHello":[{"phase":"\q"}]}`),
		in("lex", "short-unicode-escape", hControl+`{"connectionHello":[{"phase":"\u12`),
		in("lex", "lone-surrogate", hControl+`{"connectionHello":[{"phase":"\ud800"}]}`),
		in("lex", "nul-in-string", hControl+"{\"connectionHello\":[{\"phase\":\"re\x00ady\"}]}"),
		in("lex", "backslash-nul-end", hControl+`{"a":"b\`+"\x00"),
		in("lex", "data-open-string-backslash", hData+`{"data":[{"header":[{"protocolId":"ee1.0"}]},{"payload":{"datagram":"x\`),
		in("lex", "only-quotes", hControl+strings.Repeat(`"`, 33)),
		in("lex", "only-backslashes", hControl+strings.Repeat(`\`, 33)),
		in("lex", "quote-backslash-runs", hControl+strings.Repeat(`"\`, 40)))
	return a
}

// Mutate derives a byte-level variant of a message (len >= 2 is kept: shorter frames never pass the ws layer).
func Mutate(r *vc.Rand, base Input) Input {
	m := append([]byte(nil), base.Msg...)
	kind := r.Intn(10)
	sub := ""
	switch kind {
	case 8: // insert a quote / backslash / both somewhere, or cut right behind one
		ins := vc.Pick(r, []string{`"`, `\`, `\"`, `\\`, `"\`, `\u`})
		i := r.Range(1, len(m))
		m = append(m[:i:i], append([]byte(ins), m[i:]...)...)
		if r.Chance(1, 2) {
			m = m[:i+len(ins)]
		}
		sub = "esc"
	case 9: // cut inside a string: behind the k-th quote, optionally with a trailing backslash
		var qs []int
		for i, b := range m {
			if b == '"' {
				qs = append(qs, i)
			}
		}
		if len(qs) > 0 {
			i := vc.Pick(r, qs)
			m = m[:i+1]
			m = append(m, []byte(vc.Pick(r, []string{"", `\`, `x\`, `\\`, `x`}))...)
		}
		sub = "cutstr"
	case 0: // truncate
		if len(m) > 2 {
			m = m[:r.Range(2, len(m)-1)]
		}
		sub = "trunc"
	case 1: // header byte
		m[0] = byte(r.Intn(256))
		sub = "hdr"
	case 2: // trailing zeros
		for i := 0; i < r.Range(1, 3); i++ {
			m = append(m, 0)
		}
		sub = "nul"
	case 3: // whitespace after a structural byte
		var out []byte
		for _, b := range m {
			out = append(out, b)
			if (b == '[' || b == ':' || b == ',') && r.Chance(1, 3) {
				out = append(out, ' ')
			}
		}
		m = out
		sub = "ws"
	case 4: // flip a byte
		i := r.Range(1, len(m)-1)
		m[i] = byte(r.Intn(256))
		sub = "flip"
	case 5: // duplicate a slice
		if len(m) > 4 {
			i := r.Range(1, len(m)-2)
			j := r.Range(i+1, len(m)-1)
			m = append(m[:j:j], append(append([]byte(nil), m[i:j]...), m[j:]...)...)
		}
		sub = "dup"
	case 6: // replace a token
		s := string(m)
		pairs := [][2]string{{`"ready"`, `"pending"`}, {`60000`, `0`}, {`"select"`, `"announceMax"`}, {`"none"`, `"required"`},
			{`true`, `1`}, {`[{`, `[ {`}, {`}]`, `} ]`}, {`1`, `"1"`}, {`:`, `::`}, {`"`, `'`}}
		p := vc.Pick(r, pairs)
		s = strings.Replace(s, p[0], p[1], 1)
		m = []byte(s)
		sub = "tok"
	default: // arbitrary bytes
		m = r.Bytes(r.Range(2, 64))
		sub = "rand"
		if r.Chance(1, 10) {
			m = r.Bytes(r.Range(64, 4096))
		}
	}
	if len(m) < 2 {
		m = append(m, 0, 0)
	}
	return Input{Class: "mut-" + base.Class, Sub: sub, Msg: m}
}

// PresentedID is the harness's own (independent, strict) reading of an accessMethods message in
// EEBUS wire form. kind: "none" = the message cannot be taken for an accessMethods reply;
// "clean" = strictly well-formed, raw holds the id member as raw json ("-" if absent);
// "ambiguous" = mentions accessMethods but is not strictly well-formed (mutated): the monitor
// gives no C09 verdict for a history containing such a message in the access phase.
func PresentedID(msg []byte) (raw string, kind string) {
	if len(msg) < 2 {
		return "", "none"
	}
	body := strings.TrimRight(string(msg[1:]), "\x00")
	if !strings.Contains(body, "accessMethods") || strings.Contains(body, "accessMethodsRequest") && !strings.Contains(body, `"accessMethods"`) {
		return "", "none"
	}
	if strings.Contains(body, "datagram") {
		return "", "none" // routed to the SPINE path
	}
	var doc map[string][]map[string]json.RawMessage
	dec := json.NewDecoder(strings.NewReader(body))
	if err := dec.Decode(&doc); err != nil || dec.More() || len(doc) != 1 {
		return "", "ambiguous"
	}
	members, ok := doc["accessMethods"]
	if !ok {
		return "", "ambiguous"
	}
	raw = "-"
	seen := 0
	for _, m := range members {
		if len(m) != 1 {
			return "", "ambiguous"
		}
		if v, ok := m["id"]; ok {
			raw = string(v)
			seen++
		}
	}
	if seen > 1 || strings.ContainsAny(body, " \t\n") && !strings.Contains(raw, " ") {
		return "", "ambiguous"
	}
	return raw, "clean"
}
