package simkit

import (
	"encoding/json"
	"fmt"
	"strings"
)

// Finding is one refuting observation of a monitor.
type Finding struct {
	Prop, Sig, Detail string
}

type ConnMeta struct {
	Who      string
	Server   bool
	StoredID string // SHIP ID the application supplied for the remote SKI ("" = none)
}

const (
	stHelloOk   = 13
	stAbort     = 14
	stAbortDone = 15
	stRemAbort  = 16
	stRejected  = 17
	stAccess    = 36
	stApproved  = 37
	stComplete  = 38
	stError     = 39
)

func isTerminalState(n int) bool {
	return n == stAbortDone || n == stRemAbort || n == stRejected || n == stError
}

// progress states that require trust: hello-ok and everything after it
func needsTrust(n int) bool {
	return n >= stHelloOk && !isTerminalState(n) && n != stAbort
}

// ---- C04 specification graph (DESIGN.md appendix A) ----------------------------------------

var edgesClient = [][2]int{{0, 1}, {1, 2}, {2, 3}, {3, 6}, {6, 7}, {7, 8}, {8, 13}, {13, 19}, {19, 22}, {22, 24}, {24, 26},
	{26, 27}, {27, 31}, {31, 36}, {36, 37}, {37, 38}}
var edgesServer = [][2]int{{0, 4}, {4, 5}, {5, 6}, {6, 7}, {6, 10}, {10, 11}, {11, 7}, {7, 8}, {8, 13}, {13, 18}, {18, 20}, {20, 21},
	{21, 25}, {25, 26}, {26, 27}, {27, 31}, {31, 36}, {36, 37}, {37, 38}}
var edgesHello = [][2]int{{7, 14}, {8, 14}, {11, 14}, {14, 15}, {8, 16}, {11, 16}, {8, 17}}

var neverSet = map[int]bool{9: true, 12: true, 23: true, 28: true, 29: true, 30: true, 32: true, 33: true, 34: true, 35: true}

func edgeAllowed(server bool, a, b int) bool {
	if b == stError {
		return !isTerminalState(a) || a == stError
	}
	es := edgesClient
	if server {
		es = edgesServer
	}
	for _, e := range es {
		if e[0] == a && e[1] == b {
			return true
		}
	}
	for _, e := range edgesHello {
		if e[0] == a && e[1] == b {
			// the client role never is in a pending state
			if !server && (a == 11) {
				return false
			}
			return true
		}
	}
	return false
}

func phaseOf(n int) int {
	switch {
	case n >= 1 && n <= 5:
		return 1
	case n >= 6 && n <= 13:
		return 2
	case n >= 18 && n <= 25:
		return 3
	case n == 26 || n == 27 || n == 31:
		return 4
	case n == 36:
		return 5
	case n == 37:
		return 6
	case n == 38:
		return 7
	}
	return 0
}

// FrameKind names the SHIP message type of a frame.
func FrameKind(s string) string { return frameKind(s) }

func frameKind(s string) string {
	switch {
	case strings.Contains(s, `"connectionClose"`):
		return "close"
	case strings.Contains(s, `"messageProtocolHandshakeError"`):
		return "protocol-error"
	case strings.Contains(s, `"connectionHello"`) && strings.Contains(s, `"aborted"`):
		return "hello-aborted"
	case strings.Contains(s, `"connectionHello"`):
		return "hello"
	case strings.Contains(s, `"messageProtocolHandshake"`):
		return "protocol"
	case strings.Contains(s, `"connectionPinState"`):
		return "pin"
	case strings.Contains(s, `"accessMethodsRequest"`):
		return "access-req"
	case strings.Contains(s, `"accessMethods"`):
		return "access"
	case strings.Contains(s, `"data"`):
		return "data"
	case s == "\x00\x00":
		return "init"
	}
	return "other"
}

// MonitorC04 checks the reported states against the role's graph and the finality of terminal outcomes.
// edges receives every edge observed (coverage).
func MonitorC04(evs []Ev, m ConnMeta, edge func(a, b int), class func(string)) []Finding {
	var out []Finding
	add := func(sig, detail string) { out = append(out, Finding{"C04", sig, detail}) }
	prev := 0
	terminal := false
	term := ""
	termState := -1
	var phases []int
	for _, e := range evs {
		switch e.Kind {
		case "state":
			n := e.N
			if neverSet[n] {
				add(fmt.Sprintf("unused-state-reported:%d", n), e.String())
			}
			if terminal {
				if isTerminalState(n) || n == termState {
					// another terminal outcome (e.g. "rejected" when the transport error arrives after
					// the close) is not progress
					class(fmt.Sprintf("after-terminal:%s:report-%d", term, n))
				} else {
					add(fmt.Sprintf("progress-after-terminal:%s->%d", term, n), e.String())
				}
			} else {
				if n != prev || n == stError {
					if n != prev {
						edge(prev, n)
					}
					if !(n == prev && n == stError) && !edgeAllowed(m.Server, prev, n) {
						add(fmt.Sprintf("illegal-edge:%d->%d", prev, n), e.String())
					}
				}
				if p := phaseOf(n); p != 0 && (len(phases) == 0 || phases[len(phases)-1] != p) {
					phases = append(phases, p)
				}
				if n == stComplete {
					want := []int{1, 2, 3, 4, 5, 6, 7}
					ok := len(phases) == len(want)
					for i := range want {
						if !ok || phases[i] != want[i] {
							ok = false
							break
						}
					}
					if !ok {
						add("phase-order", fmt.Sprintf("phases on the way to complete: %v", phases))
					}
				}
			}
			prev = n
			if isTerminalState(n) && !terminal {
				terminal = true
				term = fmt.Sprintf("state%d", n)
				termState = n
			}
		case "closed":
			if !terminal {
				terminal = true
				term = fmt.Sprintf("closed@%d", prev)
				termState = prev
			}
		case "write":
			if terminal {
				k := frameKind(e.S)
				class(fmt.Sprintf("after-terminal:%s:frame-%s", term, k))
				if k != "close" && k != "protocol-error" && k != "hello-aborted" {
					add(fmt.Sprintf("frame-after-terminal:%s:%s", term, k), e.String())
				}
			}
		case "snap":
			if terminal {
				tag := e.S
				if e.B { // timer running
					add(fmt.Sprintf("timer-armed-after-terminal:%s", term), e.String())
				}
				if strings.HasPrefix(tag, "tail2|") {
					flags := strings.SplitN(tag, "|", 3)[1]
					if !strings.Contains(flags, "X") {
						add(fmt.Sprintf("transport-open-after-terminal:%s", term), e.String())
					}
				}
			}
		case "in":
			if terminal && e.B {
				class(fmt.Sprintf("after-terminal:%s:input-%s", term, strings.SplitN(e.S, "|", 2)[0]))
			}
		case "end":
			return out
		}
	}
	return out
}

// MonitorC01: a server-role connection makes no trusted progress without a grant.
func MonitorC01(evs []Ev, m ConnMeta, class func(string)) []Finding {
	var out []Finding
	if !m.Server {
		return nil
	}
	granted := false
	cancelled := false
	grantKind := "none"
	for _, e := range evs {
		switch e.Kind {
		case "q:paired":
			if e.B && !cancelled {
				granted = true
				grantKind = "paired"
			}
		case "q:auto":
			if e.B {
				granted = true
				grantKind = "auto"
			}
		case "approve":
			// an approval is acted upon by the connection while the request is pending (11) or while the
			// pending state is being entered (6, 10); given earlier it only takes effect through the
			// provider's answer when the hello phase is entered (q:paired), unless it was cancelled before
			if !cancelled && (e.N == 11 || e.N == 6 || e.N == 10) {
				granted = true
				grantKind = "approve"
			} else {
				class(fmt.Sprintf("approve-outside-pending:state%d", e.N))
			}
		case "cancel":
			if e.N == 11 || e.N == 8 {
				cancelled = true
				granted = false
			} else if e.N < stHelloOk && grantKind != "auto" {
				// cancelled before the trust decision of this connection was taken: whatever the user
				// approved before is withdrawn (the hub marks the service untrusted)
				granted = false
				grantKind = "none"
				class(fmt.Sprintf("cancel-before-decision:state%d", e.N))
			}
		case "state":
			if needsTrust(e.N) {
				if cancelled {
					out = append(out, Finding{"C01", fmt.Sprintf("progress-after-cancel:state%d", e.N), e.String()})
				} else if !granted {
					out = append(out, Finding{"C01", fmt.Sprintf("ungranted-progress:state%d", e.N), e.String()})
				}
				if e.N == stComplete {
					class("complete-with-grant:" + grantKind)
				}
			}
		case "setup", "payload":
			if cancelled {
				out = append(out, Finding{"C01", "progress-after-cancel:" + e.Kind, e.String()})
			} else if !granted {
				out = append(out, Finding{"C01", "ungranted-" + e.Kind, e.String()})
			}
		case "end":
			return out
		}
	}
	return out
}

// MonitorC06 (one endpoint, receiving side): payloads are delivered exactly once, in arrival order,
// only after the complete report. wants maps the uid of each well-formed data frame to the payload
// the application must receive.
func MonitorC06(evs []Ev, m ConnMeta, wants map[string]string, class func(string)) []Finding {
	var out []Finding
	add := func(sig, detail string) { out = append(out, Finding{"C06", sig, detail}) }
	complete := false
	var expect []string // uids in arrival order
	var got []string
	early := 0
	for _, e := range evs {
		switch e.Kind {
		case "state":
			if e.N == stComplete {
				complete = true
			}
		case "in":
			// S = class|sub|uid ; B = actually delivered
			parts := strings.SplitN(e.S, "|", 5)
			if e.B && parts[0] == "data" && len(parts) >= 3 {
				expect = append(expect, parts[2])
				if !complete {
					early++
				}
			}
		case "payload":
			if !complete {
				add("payload-before-complete", e.String())
			}
			uid := ""
			var doc struct {
				Datagram struct {
					ID string `json:"id"`
				} `json:"datagram"`
			}
			if err := json.Unmarshal([]byte(e.S), &doc); err == nil {
				uid = doc.Datagram.ID
			}
			if uid == "" {
				// what a hostile peer put into the payload member is not a SPINE datagram of the
				// workload (e.g. a scalar); handing it to the application is not against the statement
				class("non-datagram-payload-delivered")
				continue
			}
			if strings.HasPrefix(uid, "x") {
				// hostile variant: a well-formed data envelope under a control header byte; the SPINE
				// path does not look at the header byte, delivery of it is not against the statement
				class("nonstandard-header-data-delivered")
				continue
			}
			if w, ok := wants[uid]; !ok {
				add("payload-unknown", e.String())
			} else if w != e.S {
				add("payload-altered", fmt.Sprintf("got %q want %q", e.S, w))
			}
			got = append(got, uid)
		case "end":
			goto done
		}
	}
done:
	if !complete {
		if len(expect) > 0 {
			class("data-never-delivered-no-completion")
		}
		return out
	}
	if early > 0 {
		class(fmt.Sprintf("buffered:%d", min(early, 9)))
	}
	class(fmt.Sprintf("delivered:%d", min(len(got), 20)))
	// compare sequences
	seen := map[string]int{}
	for _, g := range got {
		seen[g]++
		if seen[g] == 2 {
			add("payload-duplicated", g)
		}
	}
	if len(got) < len(expect) {
		add("payload-lost", fmt.Sprintf("expected %v got %v", expect, got))
	} else {
		for i := range expect {
			if i < len(got) && got[i] != expect[i] {
				add("payload-reordered", fmt.Sprintf("expected %v got %v", expect, got))
				break
			}
		}
	}
	return out
}

// MonitorC09: SHIP ID pinning / first-time report.
func MonitorC09(evs []Ev, m ConnMeta, class func(string)) []Finding {
	var out []Finding
	add := func(sig, detail string) { out = append(out, Finding{"C09", sig, detail}) }
	presentedOK := false
	mismatch := false
	lastPresented, havePresented := "", false
	reports := []string{}
	setupSeen := false
	ambiguous := false
	for _, e := range evs {
		if ambiguous {
			class("ambiguous-access-input:no-verdict")
			return nil
		}
		switch e.Kind {
		case "in":
			// S = class|sub|uid|presented-kind|presented-raw
			parts := strings.SplitN(e.S, "|", 5)
			if !e.B || e.N != stAccess || len(parts) < 5 || parts[3] == "none" {
				continue
			}
			if parts[3] == "ambiguous" {
				ambiguous = true
				continue
			}
			rawID := parts[4]
			var id string
			wellTyped := json.Unmarshal([]byte(rawID), &id) == nil && rawID != "null"
			if m.StoredID != "" {
				if wellTyped && id == m.StoredID {
					if !mismatch {
						presentedOK = true
					}
					class("stored:match")
				} else {
					mismatch = true
					class("stored:mismatch:" + idClass(rawID, wellTyped))
				}
			} else {
				if wellTyped {
					if !havePresented && !mismatch {
						lastPresented, havePresented = id, true
					}
					class("unknown:" + idClass(rawID, wellTyped))
				} else {
					if !havePresented {
						mismatch = true // ill-typed id processed first: the handshake has to end in error
					}
					class("unknown:" + idClass(rawID, wellTyped))
				}
			}
		case "shipid":
			reports = append(reports, e.S)
			if setupSeen {
				add("shipid-report-after-setup", e.String())
			}
		case "setup", "state":
			if e.Kind == "state" && e.N != stComplete && e.N != stApproved {
				continue
			}
			if e.Kind == "setup" {
				setupSeen = true
			}
			if m.StoredID != "" {
				if mismatch {
					add("completed-after-wrong-id", e.String())
				} else if !presentedOK {
					add("completed-without-id", e.String())
				}
			} else {
				if mismatch {
					add("completed-after-illtyped-id", e.String())
				} else if !havePresented {
					add("completed-without-id", e.String())
				} else if len(reports) != 1 {
					add(fmt.Sprintf("shipid-reports:%d", len(reports)), fmt.Sprintf("%v %s", reports, e.String()))
				} else if reports[0] != lastPresented {
					add("shipid-report-wrong", fmt.Sprintf("reported %q presented %q", reports[0], lastPresented))
				}
			}
		case "end":
			goto done
		}
	}
done:
	if m.StoredID != "" && len(reports) > 0 && presentedOK && !mismatch {
		class("stored:reported-again") // not forbidden by the statement
	}
	if m.StoredID == "" && len(reports) > 1 {
		add(fmt.Sprintf("shipid-reports:%d", len(reports)), fmt.Sprint(reports))
	}
	return out
}

func idClass(raw string, wellTyped bool) string {
	switch {
	case raw == "-":
		return "missing"
	case raw == "null":
		return "null"
	case !wellTyped:
		return "illtyped"
	case raw == `""`:
		return "empty"
	case len(raw) > 1000:
		return "long"
	}
	for _, r := range raw {
		if r > 127 {
			return "unicode"
		}
	}
	return "plain"
}

// MonitorC08 (panics recorded by the harness)
func MonitorC08(evs []Ev) []Finding {
	var out []Finding
	for _, e := range evs {
		if e.Kind == "panic" {
			out = append(out, Finding{"C08", "panic:" + strings.SplitN(e.S, "\n", 2)[0], e.S})
		}
	}
	return out
}

// MonitorC11 (per connection object): the end is reported exactly once.
func MonitorC11(evs []Ev, m ConnMeta, ended bool, class func(string)) []Finding {
	var out []Finding
	n := 0
	for _, e := range evs {
		if e.Kind == "closed" {
			n++
		}
	}
	class(fmt.Sprintf("closed-reports:%d", n))
	if n > 1 {
		out = append(out, Finding{"C11", fmt.Sprintf("close-reported-%d-times", n), ""})
	}
	if ended && n == 0 {
		out = append(out, Finding{"C11", "close-never-reported", ""})
	}
	return out
}
