// Package simkit holds what the bubble engines share: the event log, the fake transport,
// the recording info provider and reader, SHIP message builders and the monitors that work
// on the event log of one ShipConnection.
package simkit

import (
	"fmt"
	"runtime"
	"strings"
	"sync"
	"sync/atomic"
	"time"
)

// Ev is one observed event. Seq is a process-wide logical clock, VT virtual time since scenario start.
type Ev struct {
	Seq  int64         `json:"seq"`
	VT   time.Duration `json:"vt"`
	Who  string        `json:"who"`
	Kind string        `json:"kind"`
	N    int           `json:"n,omitempty"`
	B    bool          `json:"b,omitempty"`
	S    string        `json:"s,omitempty"`
}

func (e Ev) String() string {
	return fmt.Sprintf("#%d t=%v %s %s n=%d b=%v %q", e.Seq, e.VT, e.Who, e.Kind, e.N, e.B, e.S)
}

var globalSeq atomic.Int64

// Log is the append-only event log of one scenario.
type Log struct {
	mu  sync.Mutex
	evs []Ev
	t0  time.Time
}

// NewLog creates a log; virtual time counts from the first event (so that the log can be created outside the bubble).
func NewLog() *Log { return &Log{} }

func (l *Log) Add(who, kind string, n int, b bool, s string) Ev {
	l.mu.Lock()
	defer l.mu.Unlock()
	if l.t0.IsZero() {
		l.t0 = time.Now()
	}
	e := Ev{Seq: globalSeq.Add(1), VT: time.Since(l.t0), Who: who, Kind: kind, N: n, B: b, S: s}
	l.evs = append(l.evs, e)
	return e
}

func (l *Log) Events() []Ev {
	l.mu.Lock()
	defer l.mu.Unlock()
	return append([]Ev(nil), l.evs...)
}

// For returns the events of one endpoint (plus harness events addressed to it).
func For(evs []Ev, who string) []Ev {
	var out []Ev
	for _, e := range evs {
		if e.Who == who {
			out = append(out, e)
		}
	}
	return out
}

// Compact renders a log for witnesses (bounded).
func Compact(evs []Ev, max int) []string {
	var out []string
	st := 0
	if len(evs) > max {
		st = len(evs) - max
		out = append(out, fmt.Sprintf("... %d earlier events omitted", st))
	}
	for _, e := range evs[st:] {
		s := e.S
		if len(s) > 160 {
			s = s[:160] + "..."
		}
		out = append(out, fmt.Sprintf("#%d t=%v %s %s n=%d b=%v %q", e.Seq, e.VT, e.Who, e.Kind, e.N, e.B, s))
	}
	return out
}

const modulePrefix = "github.com/enbility/ship-go/"

// LibFrame returns the innermost ship-go function on the current stack (for panic signatures).
func LibFrame(skip int) (string, []string) {
	pcs := make([]uintptr, 64)
	n := runtime.Callers(skip, pcs)
	frames := runtime.CallersFrames(pcs[:n])
	var fn string
	var trace []string
	for {
		f, more := frames.Next()
		if len(trace) < 24 {
			trace = append(trace, fmt.Sprintf("%s %s:%d", f.Function, f.File, f.Line))
		}
		if fn == "" && strings.HasPrefix(f.Function, modulePrefix) && !strings.Contains(f.Function, "verifrt") &&
			!strings.HasSuffix(f.File, "_test.go") && !strings.HasSuffix(f.File, "verif_hooks.go") {
			fn = strings.TrimPrefix(f.Function, modulePrefix)
		}
		if !more {
			break
		}
	}
	if fn == "" {
		fn = "unknown"
	}
	return fn, trace
}
