package shipsim2

import (
	"fmt"
	"strings"

	"verif/h26/simkit"
	vc "verifcommon"
	"verifcommon/jdoc"
)

// C07 end to end: generated documents travel as SPINE payloads from one application through
// WriteShipMessageWithPayload (transform + splice into the data envelope), the FIFO transport,
// HandleIncomingWebsocketMessage (inverse transform of the whole frame, payload extraction) and -
// for the ones sent from inside the setup callback - the pre-completion buffer of the peer, to the
// peer application's reader. Oracle: what the reader got parses into a document that is equal to
// the one sent (member order, number literals as text, decoded strings).

// e2ePayload builds the payload text. The uid is the first member so that it can be recognised in
// what the peer delivers; the word "datagram" (the library's routing rule for SPINE frames) is a
// member name on top level, below it, or only the content of a string.
func e2ePayload(r *vc.Rand, uid string, n int) string {
	o := jdoc.GenOpts{}
	switch r.Intn(4) {
	case 1:
		o.NoEmptyArray = true
	case 2:
		o.NoEmptyArray, o.NoBracketSeq = true, true
	}
	if r.Chance(1, 3) {
		o.MaxDepth, o.MaxWidth = 6, 3
	}
	body := jdoc.Text(jdoc.GenDoc(r, o), r.Fork("text"))
	switch r.Intn(6) {
	case 0:
		return fmt.Sprintf(`{"id":"%s","n":%d,"datagram":%s}`, uid, n, body)
	case 1:
		return fmt.Sprintf(`{"id":"%s","n":%d,"note":"a datagram, said in a string","body":%s}`, uid, n, body)
	default:
		return fmt.Sprintf(`{"datagram":{"id":"%s","n":%d,"body":%s}}`, uid, n, body)
	}
}

func genE2E(r *vc.Rand) *Config {
	c := &Config{Seed: r.Uint64(), E2E: true, Timely: true, Paired: true, WaitS: true, WaitC: true, User: "never",
		IDSofC: "right", IDCofS: "right", Writers: 1}
	c.SendInSetup = r.Intn(4) // these reach the peer before it completed: buffered path
	c.SendAfter = r.Range(4, 16)
	if r.Chance(1, 4) {
		c.Auto, c.Paired = true, false
	}
	return c
}

// monitorC07E2E compares every delivered payload with the document that was sent under its uid.
func monitorC07E2E(col *vc.Collector, c *Config, res result, wit func() any) {
	const prop = "C07"
	for _, d := range []struct {
		from, to string
		wants    map[string]string
		open     bool
	}{{"S", "C", res.WantsToC, !res.C.Ended && !res.S.Ended}, {"C", "S", res.WantsToS, !res.S.Ended && !res.C.Ended}} {
		got := map[string]bool{}
		handed := 0
		for _, e := range res.Evs {
			if e.Who == d.to && e.Kind == "in" && e.B && strings.HasPrefix(e.S, "data|") {
				handed++
			}
			if e.Who != d.to || e.Kind != "payload" {
				continue
			}
			u := uidOf(e.S)
			w, ok := d.wants[u]
			if !ok {
				col.Violation(prop, "e2e:payload-unknown", e.String(), c.ID, wit())
				continue
			}
			got[u] = true
			col.Eval(prop, 1)
			col.Count(prop, "e2e:payloads-compared", 1)
			wd, err := jdoc.Parse([]byte(w))
			if err != nil {
				col.Inconclusive(prop, "e2e: generated payload does not parse: "+err.Error())
				continue
			}
			feats := jdoc.Features(wd)
			has := func(f string) bool {
				for _, x := range feats {
					if x == f {
						return true
					}
				}
				return false
			}
			col.Class(prop, "e2e:"+strings.Join(feats, "+"))
			witness := map[string]any{"sent": w, "received": e.S, "features": feats, "config": c}
			gd, err := jdoc.Parse([]byte(e.S))
			if err != nil {
				col.Violation(prop, "e2e:payload-unparsable", err.Error(), c.ID, witness)
				continue
			}
			if ok, diff := jdoc.Equal(wd, gd, false); !ok {
				if relaxed, _ := jdoc.Equal(wd, gd, true); relaxed && has("empty-array") {
					// same input class as the recorded finding of the pure transform
					col.Violation(prop, "roundtrip:input-class:empty-array", diff, c.ID, witness)
				} else {
					cls := "other"
					if has("string-bracket-seq") || has("name-bracket-seq") {
						cls = "string-bracket-seq"
					}
					col.Violation(prop, "e2e:payload-altered:"+cls, diff, c.ID, witness)
				}
			}
		}
		// a payload that was accepted and handed to the open, completed peer but never reached its
		// reader was dropped by the receiving transform / envelope parsing
		if d.open && res.S.Complete && res.C.Complete {
			missing := 0
			for u, w := range d.wants {
				if !got[u] {
					if strings.Contains(w, `"note":"a datagram`) {
						// "datagram" only inside a string: that such a payload is routed to the SPINE
						// reader is today's substring rule, not something the property promises
						col.Class(prop, "e2e:string-only-datagram-not-delivered")
						continue
					}
					missing++
					if missing <= 3 {
						col.Violation(prop, "e2e:payload-dropped", fmt.Sprintf("%s->%s: %s sent, never delivered to the peer's reader (%d frames handed to the peer connection)", d.from, d.to, u, handed), c.ID,
							map[string]any{"sent": w, "config": c})
					}
				}
			}
		}
	}
	_ = simkit.Compact
}
