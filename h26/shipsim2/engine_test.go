package shipsim2

import (
	"encoding/json"
	"fmt"
	"os"
	"strconv"
	"strings"
	"testing"
	"time"

	"verif/h26/simkit"
	vc "verifcommon"
)

const engine = "shipsim2"

var props = []string{"C01", "C03", "C04", "C06", "C09", "C11"}

func (c *Config) Desc() string {
	t := "unknown"
	if c.Paired {
		t = "paired"
	} else if c.Auto {
		t = "auto"
	}
	m := "arbitrary"
	if c.Timely {
		m = "timely"
	}
	at := c.UserAt.Round(time.Second).String()
	if c.UserAfter > 0 {
		at = fmt.Sprintf("step%d", c.UserAfter)
	}
	return fmt.Sprintf("%s/%s/%s@%s/wS=%v,wC=%v/ids=%s,%s/causes=%d", m, t, c.User, at, c.WaitS, c.WaitC, c.IDSofC, c.IDCofS, len(c.Causes))
}

// expected outcome of the timely mode (DESIGN.md appendix D)
func expect(c *Config, userState, userStateC int) string {
	trusted := c.Paired || c.Auto
	reach := false
	// a cancel is effective exactly while the server side listens in the hello phase (ready or
	// pending); an approval of an already trusted client is harmless at any time
	if c.User == "cancel" && (userState == 8 || userState == 11) {
		return "neither-ended"
	}
	if c.UserAfter > 0 && !trusted && c.User == "approve" {
		if userStateC == 14 || userStateC == 15 || userStateC == 39 {
			// the client gave up already (its wait-for-ready timer expired): nothing left to approve
			return "neither-ended"
		}
		if userState == 11 {
			reach = true
		} else if userState >= 0 && userState < 11 {
			// approved before the request was pending: the hub's RegisterRemoteSKI makes the SKI
			// trusted, so the hello phase goes straight to ready
			reach = true
		}
	}
	switch {
	case reach:
	case trusted:
		reach = true
	case !c.WaitS:
		return "neither-ended"
	default:
		switch c.User {
		case "approve":
			if c.WaitC || c.UserAt < 60*time.Second {
				reach = true
			} else {
				return "neither-ended"
			}
		case "cancel":
			return "neither-ended"
		default:
			if c.WaitC {
				return "undecided"
			}
			return "neither-ended"
		}
	}
	if reach && (c.IDSofC == "wrong" || c.IDCofS == "wrong" || c.IDSofC == "case" || c.IDCofS == "case") {
		return "id-mismatch"
	}
	return "both-complete"
}

func genUserAt(r *vc.Rand) time.Duration {
	for {
		ms := r.Range(2000, 200000)
		ok := true
		for _, b := range []int{0, 30000, 60000, 66000, 90000, 120000, 126000, 150000, 180000, 186000, 210000} {
			if ms > b-1500 && ms < b+1500 {
				ok = false
			}
		}
		if ok {
			return time.Duration(ms) * time.Millisecond
		}
	}
}

var causeKinds = []string{"disconnect", "unregister", "close-unsafe", "terr", "send"}
var causeOffsets = []time.Duration{0, time.Millisecond, 499 * time.Millisecond, 500 * time.Millisecond, 501 * time.Millisecond, time.Second}

func genConfig(r *vc.Rand, i int) *Config {
	c := &Config{Seed: r.Uint64(), WaitS: !r.Chance(1, 4), WaitC: !r.Chance(1, 4), Writers: 1}
	switch r.Intn(3) {
	case 0:
		c.Paired = true
	case 1:
		c.Auto = true
	}
	c.User = vc.Pick(r, []string{"approve", "approve", "cancel", "never"})
	c.UserAt = genUserAt(r)
	if r.Chance(1, 3) {
		c.UserAfter = r.Range(1, 14)
	}
	c.IDSofC = vc.Pick(r, []string{"none", "right", "right", "wrong", "case"})
	c.IDCofS = vc.Pick(r, []string{"none", "right", "right", "wrong", "case"})
	c.Timely = i%2 == 0
	if !c.Timely {
		c.Choices = r.Range(5, 60)
	}
	if r.Chance(1, 2) {
		c.SendInSetup = r.Intn(4)
		c.SendAfter = r.Intn(6)
		c.Writers = r.Range(1, 4)
	}
	if r.Chance(1, 3) {
		n := r.Range(1, 2)
		for k := 0; k < n; k++ {
			c.Causes = append(c.Causes, Cause{Kind: vc.Pick(r, causeKinds), Who: vc.Pick(r, []string{"S", "C"}), After: vc.Pick(r, causeOffsets)})
		}
	}
	return c
}

func evaluate(col *vc.Collector, c *Config, res result) {
	wit := func() any {
		return map[string]any{"config": c, "choices": res.Choices, "S": res.S, "C": res.C, "user_state": res.UserState, "log": simkit.Compact(res.Evs, 200)}
	}
	if c.E2E {
		// C07 end to end only: the other monitors compare payloads byte by byte
		for _, e := range res.Evs {
			if e.Kind == "panic" {
				col.Violation("C08", "panic:"+strings.SplitN(e.S, "\n", 2)[0], e.S, c.ID, wit())
			}
		}
		if res.BubbleErr != "" {
			col.Inconclusive("C07", "e2e bubble: "+res.BubbleErr)
			return
		}
		if !res.S.Complete || !res.C.Complete {
			col.Inconclusive("C07", "e2e: handshake of the carrier connection did not complete")
			return
		}
		col.Count("C07", "e2e:scenarios", 1)
		monitorC07E2E(col, c, res, wit)
		return
	}
	for _, p := range props {
		col.Eval(p, 1)
	}
	if res.BubbleErr != "" {
		sig := "bubble:" + res.BubbleErr
		if strings.Contains(res.BubbleErr, "blocked goroutines remain") {
			sig = "leak:blocked-goroutines"
		}
		col.Violation("C11", sig, res.BubbleErr, c.ID, wit())
		return
	}
	report := func(fs []simkit.Finding) {
		for _, f := range fs {
			col.Violation(f.Prop, f.Sig, f.Detail, c.ID, wit())
		}
	}
	for _, e := range res.Evs {
		if e.Kind == "panic" {
			col.Violation("C08", "panic:"+strings.SplitN(e.S, "\n", 2)[0], e.S, c.ID, wit())
		}
	}
	if c.UserConcurrent {
		col.Count("C03", "user-action-in-parallel-with-a-delivery", 1)
	}
	// per endpoint monitors
	for _, x := range []struct {
		who    string
		server bool
		stored string
		wants  map[string]string
		o      outcome
	}{{"S", true, stored(c.IDSofC, idC), res.WantsToS, res.S}, {"C", false, stored(c.IDCofS, idS), res.WantsToC, res.C}} {
		evs := simkit.For(res.Evs, x.who)
		meta := simkit.ConnMeta{Who: x.who, Server: x.server, StoredID: x.stored}
		report(simkit.MonitorC01(evs, meta, func(k string) { col.Class("C01", "b2:"+k) }))
		report(simkit.MonitorC04(evs, meta,
			func(a, b int) { col.Class("C04", fmt.Sprintf("b2:%s:edge:%d->%d", x.who, a, b)) },
			func(k string) { col.Class("C04", "b2:"+k) }))
		report(simkit.MonitorC11(evs, meta, x.o.Ended, func(k string) { col.Class("C11", x.who+":"+k) }))
		// C09 from the peer's frames: what the peer presented is what this side received
		report(monitorC09Pair(evs, res.Evs, meta, func(k string) { col.Class("C09", "b2:"+x.who+":"+k) }))
	}
	report(monitorC06Pair(res, func(k string) { col.Class("C06", "b2:"+k) }))

	// C03
	kind := "arbitrary"
	if c.Timely {
		kind = "timely"
	}
	col.Class("C03", "sig:"+fmt.Sprint(hash(res.Sig)))
	s, cl := res.S, res.C
	class := ""
	switch {
	case s.Complete && cl.Complete && !s.Ended && !cl.Ended:
		class = "both-complete-open"
	case s.Ended && cl.Ended:
		class = fmt.Sprintf("both-ended(S.complete=%v,C.complete=%v)", s.Complete, cl.Complete)
	case !s.Complete && !cl.Complete && !s.Ended && !cl.Ended:
		class = fmt.Sprintf("both-in-progress(S=%d,C=%d)", s.LastState, cl.LastState)
	default:
		class = fmt.Sprintf("disagree(S:complete=%v,ended=%v,state=%d;C:complete=%v,ended=%v,state=%d)", s.Complete, s.Ended, s.LastState, cl.Complete, cl.Ended, cl.LastState)
	}
	col.Class("C03", kind+":outcome:"+class)
	col.Count("C03", kind+":"+class, 1)
	if strings.HasPrefix(class, "disagree") {
		sig := "disagree-at-quiescence:" + kind
		if c.UserConcurrent {
			sig = "timely:user-action-in-parallel-with-a-delivery"
		}
		col.Violation("C03", sig, class, c.ID, wit())
	}
	if s.Setups > 1 || cl.Setups > 1 {
		sig := "setup-more-than-once"
		if c.UserConcurrent {
			sig = "timely:user-action-in-parallel-with-a-delivery"
		}
		col.Violation("C03", sig, fmt.Sprintf("S %d C %d", s.Setups, cl.Setups), c.ID, wit())
	}
	if c.Timely && len(c.Causes) == 0 {
		want := expect(c, res.UserState, res.UserStateC)
		col.Class("C03", "timely:expected:"+want+":"+c.Desc()[7:strings.LastIndex(c.Desc(), "/ids")])
		// was the approval given while a hello message of the client was still outstanding (its first
		// hello not yet delivered, or its answer to a prolongation request in flight)? Then that hello
		// reaches the server after the approval: in ready-listen (8) since the repair 5d569c4, in the
		// protocol phase (13/18/20) before it, where it was rejected.
		approvedBeforeHello := false
		if c.User == "approve" && res.UserState == 11 {
			approved := false
			for _, e := range res.Evs {
				if e.Who == "S" && e.Kind == "approve" {
					approved = true
				}
				if approved && e.Who == "S" && e.Kind == "in" && e.B && strings.HasPrefix(e.S, "hello|") && (e.N == 8 || e.N == 13 || e.N == 18 || e.N == 20) {
					approvedBeforeHello = true
					break
				}
			}
		}
		bad := func(why string) {
			if c.UserConcurrent {
				// recorded finding: the user's action ran in parallel with the handling of a message
				col.Violation("C03", "timely:user-action-in-parallel-with-a-delivery", fmt.Sprintf("expected %s (%s), observed %s", want, why, class), c.ID, wit())
				return
			}
			if approvedBeforeHello && why == "not-both-complete" {
				// the recorded finding is exactly this: the outstanding hello is rejected in the protocol
				// phase and both sides end; any other outcome (e.g. both sides hanging) is a different failure
				why = "approved-with-peer-hello-outstanding"
				if !strings.HasPrefix(class, "both-ended(S.complete=false,C.complete=false)") {
					why += ":" + strings.SplitN(class, "(", 2)[0]
				}
			}
			col.Violation("C03", "timely:"+want+":"+why, fmt.Sprintf("expected %s, observed %s", want, class), c.ID, wit())
		}
		if approvedBeforeHello {
			col.Count("C03", "approved-while-pending-with-peer-hello-outstanding", 1)
		}
		switch want {
		case "both-complete":
			if class != "both-complete-open" {
				bad("not-both-complete")
				break
			}
			if s.Setups != 1 || cl.Setups != 1 {
				bad("setup-count")
			}
			chk := func(o outcome, storedKind, peerID, who string) {
				switch storedKind {
				case "none":
					if len(o.ShipIDs) != 1 || o.ShipIDs[0] != peerID {
						bad("shipid-not-learned:" + who)
					}
				case "right":
					for _, id := range o.ShipIDs {
						if id != peerID {
							bad("shipid-wrong-report:" + who)
						}
					}
				}
			}
			chk(s, c.IDSofC, idC, "S")
			chk(cl, c.IDCofS, idS, "C")
		case "neither-ended":
			if s.Complete || cl.Complete || s.Setups+cl.Setups > 0 {
				bad("completed")
			} else if !s.Ended || !cl.Ended {
				bad("not-ended")
			}
		case "undecided":
			if class != "both-in-progress(S=11,C=8)" {
				bad("not-pending")
			}
		case "id-mismatch":
			if (c.IDSofC == "wrong" || c.IDSofC == "case") && (s.Complete || s.Setups > 0) {
				bad("wrong-id-side-completed:S")
			}
			if (c.IDCofS == "wrong" || c.IDCofS == "case") && (cl.Complete || cl.Setups > 0) {
				bad("wrong-id-side-completed:C")
			}
			if !s.Ended || !cl.Ended {
				bad("not-ended")
			}
		}
	}
	if len(c.Causes) > 0 {
		for _, cs := range c.Causes {
			col.Class("C11", "cause:"+cs.Kind+":"+cs.Who+":"+cs.After.String())
		}
		if len(c.Causes) > 1 {
			col.Class("C11", "pair:"+c.Causes[0].Kind+c.Causes[0].Who+"+"+c.Causes[1].Kind+c.Causes[1].Who+"@"+c.Causes[1].After.String())
		}
	}
	for _, p := range props {
		if col.WantSample(p) {
			col.Sample(p, map[string]any{"config": c.Desc(), "choices": res.Choices, "S": res.S, "C": res.C})
		}
	}
}

func hash(s string) uint32 {
	var h uint32 = 2166136261
	for i := 0; i < len(s); i++ {
		h = (h ^ uint32(s[i])) * 16777619
	}
	return h
}

// monitorC09Pair rebuilds the "in" events of one endpoint with what the peer actually presented
// (the frames are produced by the real peer endpoint) and runs the C09 monitor.
func monitorC09Pair(evs, all []simkit.Ev, m simkit.ConnMeta, class func(string)) []simkit.Finding {
	// frames written by the peer, in order; deliveries to this side consume them in FIFO order
	peer := "S"
	if m.Who == "S" {
		peer = "C"
	}
	var frames []string
	for _, e := range all {
		if e.Who == peer && e.Kind == "write" {
			frames = append(frames, e.S)
		}
	}
	k := 0
	var out []simkit.Ev
	for _, e := range evs {
		if e.Kind == "in" {
			if k < len(frames) {
				raw, kind := simkit.PresentedID([]byte(frames[k]))
				parts := strings.SplitN(e.S, "|", 5)
				e.S = parts[0] + "|" + parts[1] + "||" + kind + "|" + raw
			}
			k++
		}
		out = append(out, e)
	}
	return simkit.MonitorC09(out, m, class)
}

// monitorC06Pair: per direction, what the receiver's application got is a prefix of what the
// sender's transport accepted, in that order, exactly once, only after the receiver completed;
// everything if the connection stayed open and all frames were delivered.
func monitorC06Pair(res result, class func(string)) []simkit.Finding {
	var out []simkit.Finding
	add := func(sig, detail string) { out = append(out, simkit.Finding{Prop: "C06", Sig: sig, Detail: detail}) }
	for _, d := range []struct {
		from, to string
		wants    map[string]string
		toOpen   bool
	}{{"S", "C", res.WantsToC, !res.C.Ended && !res.S.Ended}, {"C", "S", res.WantsToS, !res.S.Ended && !res.C.Ended}} {
		var accepted, delivered, got []string
		complete := false
		for _, e := range res.Evs {
			switch {
			case e.Who == d.from && e.Kind == "write" && simkit.FrameKind(e.S) == "data":
				accepted = append(accepted, uidOf(e.S))
			case e.Who == d.to && e.Kind == "in" && e.B && strings.HasPrefix(e.S, "data|"):
				delivered = append(delivered, "")
			case e.Who == d.to && e.Kind == "state" && e.N == 38:
				complete = true
			case e.Who == d.to && e.Kind == "payload":
				if !complete {
					add("payload-before-complete", e.String())
				}
				u := uidOf(e.S)
				if w, ok := d.wants[u]; !ok {
					add("payload-unknown", e.String())
				} else if w != e.S {
					add("payload-altered", fmt.Sprintf("got %q want %q", e.S, w))
				}
				got = append(got, u)
			case e.Kind == "end":
			}
		}
		class(fmt.Sprintf("%s->%s:accepted=%d,delivered-to-conn=%d,got=%d", d.from, d.to, min(len(accepted), 12), min(len(delivered), 12), min(len(got), 12)))
		seen := map[string]bool{}
		for _, g := range got {
			if seen[g] {
				add("payload-duplicated", g)
			}
			seen[g] = true
		}
		// the frames handed to the receiving connection are a prefix of accepted (FIFO transport)
		n := len(delivered)
		for i, g := range got {
			if i >= len(accepted) || accepted[i] != g {
				add("payload-reordered", fmt.Sprintf("%s->%s accepted %v got %v", d.from, d.to, accepted, got))
				break
			}
		}
		if complete && len(got) < n && d.toOpen {
			add("payload-lost", fmt.Sprintf("%s->%s: %d frames handed to the open, completed connection, %d payloads delivered (accepted %v got %v)", d.from, d.to, n, len(got), accepted, got))
		}
	}
	return out
}

func uidOf(s string) string {
	i := strings.Index(s, `"id":"`)
	if i < 0 {
		return ""
	}
	s = s[i+6:]
	j := strings.Index(s, `"`)
	if j < 0 {
		return ""
	}
	return s[:j]
}

func TestEngine(t *testing.T) {
	run_ := vc.LoadRun(engine)
	col := vc.NewCollector(run_)
	start, _ := strconv.Atoi(os.Getenv("VERIF_START"))
	wd := vc.NewWatchdog(col, 30*time.Second)
	wd.Attribute = func(op string) string {
		switch op {
		case "deliver", "terr", "run":
			return "C08"
		}
		return "C11"
	}
	if run_.Replay != "" {
		var rp struct {
			Witness struct {
				Config Config `json:"config"`
			} `json:"witness"`
		}
		b, err := os.ReadFile(run_.Replay)
		if err == nil && json.Unmarshal(b, &rp) == nil && rp.Witness.Config.ID != "" {
			c := rp.Witness.Config
			vc.Scn(c.ID)
			wd.Begin(c.ID, func() any { return c })
			evaluate(col, &c, run(t, &c, wd))
			wd.End()
		}
		col.Write(true)
		return
	}
	n := run_.N(3000, 60000)
	onlyE2E := run_.Prop == "C07"
	if onlyE2E {
		n = run_.N(1500, 30000)
	}
	for i := 0; i < n; i++ {
		if !run_.Mine(i) || i < start {
			continue
		}
		r := vc.NewRand(run_.Seed, engine, uint64(i))
		var c *Config
		if onlyE2E {
			c = genE2E(vc.NewRand(run_.Seed, engine+"-e2e", uint64(i)))
			c.ID = fmt.Sprintf("%s/e2e/%d", engine, i)
		} else {
			c = genConfig(r, i)
			c.ID = fmt.Sprintf("%s/%d/%s", engine, i, c.Desc())
		}
		vc.Scn(c.ID)
		wd.Begin(c.ID, func() any { return c })
		res := run(t, c, wd)
		wd.End()
		evaluate(col, c, res)
		if run_.Prop == "C03" && !onlyE2E && c.UserAfter > 0 && c.User != "never" && c.Timely && len(c.Causes) == 0 && i%2 == 0 {
			// the same configuration once more, the user's action in parallel with the next delivery
			cc := *c
			cc.UserConcurrent = true
			cc.ID = c.ID + "/user-in-parallel"
			vc.Scn(cc.ID)
			wd.Begin(cc.ID, func() any { return cc })
			cres := run(t, &cc, wd)
			wd.End()
			evaluate(col, &cc, cres)
		}
		if i%500 == 0 {
			col.Write(false)
		}
	}
	col.Write(true)
}
