// Package shipsim2: engine B2 - a client-role and a server-role ShipConnection joined by two FIFO
// queues owned by the harness, inside a synctest bubble. A seeded chooser picks among the enabled
// events (deliveries, approval, cancel, close propagation, local close causes, application sends,
// time); "timely" mode lets time advance only when nothing else can happen.
package shipsim2

import (
	"errors"
	"fmt"
	"strings"
	"sync"
	"testing"
	"testing/synctest"
	"time"

	"verif/h26/simkit"
	vc "verifcommon"
)

type Config struct {
	ID     string `json:"id"`
	Timely bool   `json:"timely"`
	// server side trust
	Paired bool `json:"paired"`
	Auto   bool `json:"auto"`
	WaitS  bool `json:"wait_s"`
	WaitC  bool `json:"wait_c"`
	// user action on the server side: "approve", "cancel", "never"
	User   string        `json:"user"`
	UserAt time.Duration `json:"user_at"`
	// UserAfter > 0: the user acts after that many chooser steps instead (lands inside the handshake)
	UserAfter int `json:"user_after"`
	// SHIP ids: what each side has stored for the other: "none", "right", "wrong"
	IDSofC string `json:"id_s_of_c"`
	IDCofS string `json:"id_c_of_s"`
	// application traffic
	SendInSetup int `json:"send_in_setup"` // payloads each side sends from inside its setup callback
	SendAfter   int `json:"send_after"`    // payloads sent once complete (split over Writers goroutines)
	Writers     int `json:"writers"`
	// arbitrary mode: number of chooser decisions before the run is drained
	Choices int `json:"choices"`
	// close causes (C11): applied when both are complete (or at chooser's discretion in arbitrary mode)
	Causes []Cause `json:"causes"`
	Seed   uint64  `json:"seed"`
	// UserConcurrent (C03 runs only): the user's action runs on its own goroutine at the same instant as the next
	// delivery, in parallel with it (an approval arriving while the pending state is being decided or entered)
	UserConcurrent bool `json:"user_concurrent,omitempty"`
	// E2E (C07 end to end): application payloads are generated JSON documents instead of the fixed
	// numbered payload; what the peer's reader gets is compared semantically with what was sent
	E2E bool `json:"e2e"`
}

type Cause struct {
	Kind  string        `json:"kind"` // disconnect, unregister, close-unsafe, terr, send-after-close
	Who   string        `json:"who"`
	After time.Duration `json:"after"` // offset from the previous cause
}

const idS, idC = "SHIP-ID-OF-SERVER", "SHIP-ID-OF-CLIENT"

func stored(kind, right string) string {
	switch kind {
	case "right":
		return right
	case "wrong":
		return "WRONG-" + right
	case "case":
		return strings.ToLower(right) // differs from the presented id only in case
	}
	return ""
}

type side struct {
	*simkit.Endpoint
	peer        *side
	notified    bool // transport loss already reported to this side
	sendN       int
	wants       map[string]string // uid -> payload the peer must receive
	setupSends  int
	mu          sync.Mutex
	sentOrder   []string // uids in the order the data frames were accepted by the transport
	activity    chan struct{}
	causeIssued bool
	docR        *vc.Rand // E2E: source of the generated documents
}

type outcome struct {
	Complete  bool     `json:"complete"`
	Setups    int      `json:"setups"`
	ShipIDs   []string `json:"shipids"`
	Ended     bool     `json:"ended"`
	CloseRep  int      `json:"close_reports"`
	LastState int      `json:"last_state"`
	Payloads  int      `json:"payloads"`
}

type result struct {
	Evs        []simkit.Ev
	S, C       outcome
	Choices    []string
	Sig        string // interleaving signature
	Timely     bool   // stayed timely (no timer-driven frame while a delivery was enabled)
	UserState  int    // handshake state of the server side when the user acted (-1: never)
	UserStateC int    // state of the client side at that moment
	WantsToS   map[string]string
	WantsToC   map[string]string
	SentByS    []string
	SentByC    []string
	BubbleErr  string
	Horizon    bool
}

var errPeerGone = errors.New("peer closed the connection")

func run(t *testing.T, cfg *Config, wd *vc.Watchdog) (res result) {
	l := simkit.NewLog()
	r := vc.NewRand(cfg.Seed, "shipsim2-run", 0)
	res.BubbleErr = simkit.Bubble(t, func(t *testing.T) {
		activity := make(chan struct{}, 1)
		poke := func() {
			select {
			case activity <- struct{}{}:
			default:
			}
		}
		mk := func(who string, server bool, paired, auto, wait bool, local, storedRemote string) *side {
			ep := simkit.NewEndpoint(l, simkit.EndpointCfg{Who: who, Server: server, Paired: paired, Auto: auto, AllowWait: wait,
				LocalID: local, StoredRemoteID: storedRemote})
			return &side{Endpoint: ep, wants: map[string]string{}, activity: activity}
		}
		S := mk("S", true, cfg.Paired, cfg.Auto, cfg.WaitS, idS, stored(cfg.IDSofC, idC))
		// the client side initiated the connection: its hub only does so for SKIs the user registered,
		// which also makes AllowWaitingForTrust true there; WaitC=false models an application-level
		// provider that does not wait
		C := mk("C", false, cfg.WaitC, false, cfg.WaitC, idC, stored(cfg.IDCofS, idS))
		S.peer, C.peer = C, S
		if cfg.E2E {
			S.docR, C.docR = vc.NewRand(cfg.Seed, "e2e-docs-S", 0), vc.NewRand(cfg.Seed, "e2e-docs-C", 0)
		}
		for _, x := range []*side{S, C} {
			x := x
			x.W.OnWrite = poke
			x.P.OnEvent = poke
			x.P.OnSetup = func() {
				// application sends from inside the setup callback
				for i := 0; i < cfg.SendInSetup; i++ {
					x.send()
				}
			}
		}
		start := time.Now()
		now := func() time.Duration { return time.Since(start) }
		choose := func(label string) { res.Choices = append(res.Choices, label) }

		call := func(op string, f func()) {
			wd.Op(op)
			defer func() {
				if p := recover(); p != nil {
					fn, trace := simkit.LibFrame(3)
					l.Add("H", "panic", 0, false, fn+"\n"+fmt.Sprint(p)+"\n"+strings.Join(trace, "\n"))
				}
			}()
			f()
		}

		deliver := func(from, to *side) {
			m, ok := from.W.TakeOne()
			if !ok {
				return
			}
			st := int(to.Conn.VerifState())
			k := simkit.FrameKind(string(m))
			if to.W.Closed() {
				l.Add(to.Who, "in", st, false, k+"|dropped-receiver-closed||none|")
				return
			}
			l.Add(to.Who, "in", st, true, k+"|from-peer||none|")
			call("deliver", func() { to.Conn.HandleIncomingWebsocketMessage(m) })
		}
		propagate := func(from, to *side) {
			to.notified = true
			if to.W.Closed() {
				return // its own pumps are gone already: nothing is reported
			}
			to.W.Kill(errPeerGone)
			l.Add(to.Who, "terr", int(to.Conn.VerifState()), true, "peer closed")
			call("terr", func() { to.Conn.ReportConnectionError(errPeerGone) })
		}
		userDone := cfg.User == "never"
		res.UserState = -1
		doUser := func() {
			userDone = true
			res.UserState = int(S.Conn.VerifState())
			res.UserStateC = int(C.Conn.VerifState())
			switch cfg.User {
			case "approve":
				l.Add("S", "approve", int(S.Conn.VerifState()), false, "")
				S.P.SetPairedUser(true)
				call("approve", func() { S.Conn.ApprovePendingHandshake() })
			case "cancel":
				l.Add("S", "cancel", int(S.Conn.VerifState()), false, "")
				call("cancel", func() { S.Conn.AbortPendingHandshake() })
				S.P.SetPairedUser(false)
			}
		}
		causeIdx := 0
		var causeDue time.Duration = -1
		doCause := func(c Cause) {
			x := S
			if c.Who == "C" {
				x = C
			}
			l.Add(x.Who, "cause", int(x.Conn.VerifState()), false, c.Kind)
			switch c.Kind {
			case "disconnect":
				call("disconnect", func() { x.Conn.CloseConnection(true, 0, "bye") })
			case "unregister":
				x.P.SetPairedUser(false)
				call("unregister", func() { x.Conn.CloseConnection(true, 4500, "User close") })
			case "close-unsafe":
				call("close-unsafe", func() { x.Conn.CloseConnection(false, 0, "") })
			case "terr":
				if !x.W.Closed() {
					x.W.Kill(errPeerGone)
					x.notified = true
					l.Add(x.Who, "terr", int(x.Conn.VerifState()), true, "injected")
					call("terr", func() { x.Conn.ReportConnectionError(errPeerGone) })
				}
			case "send":
				x.send()
			}
		}

		call("run", func() { S.Conn.Run() })
		call("run", func() { C.Conn.Run() })

		afterSent := false
		horizon := 12 * time.Minute
		steps := 0
		for {
			steps++
			synctest.Wait()
			if steps > 4000 || now() > horizon {
				res.Horizon = true
				break
			}
			// application traffic once both are complete
			if !afterSent && cfg.SendAfter > 0 && S.P.SpineWriter != nil && C.P.SpineWriter != nil {
				afterSent = true
				var wg sync.WaitGroup
				for w := 0; w < cfg.Writers; w++ {
					for _, x := range []*side{S, C} {
						x := x
						wg.Add(1)
						go func() {
							defer wg.Done()
							for i := 0; i < cfg.SendAfter; i++ {
								x.send()
							}
						}()
					}
				}
				wg.Wait()
				continue
			}
			// enabled events
			type ev struct {
				name string
				f    func()
			}
			var en []ev
			if C.W.Pending() > 0 {
				en = append(en, ev{"dCS", func() { deliver(C, S) }})
			}
			if S.W.Pending() > 0 {
				en = append(en, ev{"dSC", func() { deliver(S, C) }})
			}
			if C.W.Closed() && C.W.Pending() == 0 && !S.notified {
				en = append(en, ev{"pCS", func() { propagate(C, S) }})
			}
			if S.W.Closed() && S.W.Pending() == 0 && !C.notified {
				en = append(en, ev{"pSC", func() { propagate(S, C) }})
			}
			// close causes: armed once both sides are complete (timely) / once chosen (arbitrary)
			if causeIdx < len(cfg.Causes) && causeDue < 0 && S.P.SpineWriter != nil && C.P.SpineWriter != nil {
				causeDue = now() + cfg.Causes[causeIdx].After
			}
			if causeIdx < len(cfg.Causes) && causeDue >= 0 && now() >= causeDue {
				c := cfg.Causes[causeIdx]
				causeIdx++
				causeDue = -1
				if causeIdx < len(cfg.Causes) {
					causeDue = now() + cfg.Causes[causeIdx].After
				}
				choose("cause:" + c.Kind + c.Who)
				doCause(c)
				continue
			}
			if !userDone && (cfg.UserAfter == 0 && now() >= cfg.UserAt || cfg.UserAfter > 0 && steps > cfg.UserAfter) {
				if cfg.UserConcurrent && len(en) > 0 {
					// in parallel with the next delivery
					choose(cfg.User + "||")
					var uw sync.WaitGroup
					uw.Add(1)
					userDone = true
					go func() { defer uw.Done(); doUser() }()
					k := r.Intn(len(en))
					choose(en[k].name)
					en[k].f()
					uw.Wait()
					continue
				}
				choose(cfg.User)
				doUser()
				continue
			}

			arbitrary := !cfg.Timely && len(res.Choices) < cfg.Choices
			if arbitrary {
				// any enabled event, or let time pass although something is enabled
				if len(en) > 0 && !r.Chance(15, 100) {
					k := r.Intn(len(en))
					choose(en[k].name)
					en[k].f()
					continue
				}
				d := vc.Pick(r, []time.Duration{time.Millisecond, 499 * time.Millisecond, time.Second, time.Second, 2 * time.Second, 5 * time.Second,
					9 * time.Second, 11 * time.Second, 31 * time.Second, 61 * time.Second, 67 * time.Second})
				choose("sleep:" + d.String())
				time.Sleep(d)
				continue
			}
			if len(en) > 0 {
				k := r.Intn(len(en))
				choose(en[k].name)
				en[k].f()
				continue
			}
			// nothing enabled: finished?
			if S.W.Closed() && C.W.Closed() && S.notified && C.notified {
				break
			}
			// wait for library activity (a timer firing) or the next scheduled harness action
			wait := 200 * time.Second
			if !userDone && cfg.UserAfter == 0 && cfg.UserAt-now() < wait {
				wait = cfg.UserAt - now()
			}
			if causeDue >= 0 && causeDue-now() < wait {
				wait = causeDue - now()
			}
			if wait <= 0 {
				continue
			}
			idleStart := now()
			select {
			case <-activity:
				if d := now() - idleStart; d > 0 {
					choose("timer@" + d.Round(time.Second).String())
				}
			case <-time.After(wait):
				if wait == 200*time.Second {
					// nothing happened for 200 virtual seconds: quiescent (all handshake timers are shorter)
					if userDone && causeIdx >= len(cfg.Causes) {
						goto done
					}
				}
			}
		}
	done:
		synctest.Wait()
		S.Snap("tail1")
		C.Snap("tail1")
		time.Sleep(2 * time.Second)
		synctest.Wait()
		S.Snap("tail2")
		C.Snap("tail2")
		res.S, res.C = S.outcome(l), C.outcome(l)
		l.Add("H", "end", 0, false, "")
		for _, x := range []*side{S, C} {
			x := x
			call("final-close", func() { x.Conn.CloseConnection(false, 0, "") })
		}
		time.Sleep(250 * 365 * 24 * time.Hour)
		synctest.Wait()
		res.WantsToS, res.WantsToC = C.wants, S.wants
		res.SentByS, res.SentByC = S.sentOrder, C.sentOrder
	})
	if res.BubbleErr == simkit.RaceOrFailNow {
		res.BubbleErr = "" // the race report is in the GORACE log; the scenario itself is evaluated as usual
	}
	res.Evs = l.Events()
	res.Sig = strings.Join(res.Choices, ",")
	return res
}

func (x *side) send() {
	w := x.P.Writer()
	if w == nil {
		return
	}
	x.mu.Lock()
	x.sendN++
	n := x.sendN
	x.mu.Unlock()
	uid := fmt.Sprintf("%s-%d", strings.ToLower(x.Who), n)
	p, want := simkit.SpinePayload(uid, n)
	x.mu.Lock()
	if x.docR != nil {
		p = e2ePayload(x.docR, uid, n)
		want = p
	}
	x.wants[uid] = want
	x.mu.Unlock()
	x.L.Add(x.Who, "send", n, false, uid)
	func() {
		defer func() {
			if p := recover(); p != nil {
				fn, _ := simkit.LibFrame(3)
				x.L.Add("H", "panic", 0, false, fn+"\n"+fmt.Sprint(p))
			}
		}()
		w.WriteShipMessageWithPayload([]byte(p))
	}()
	x.L.Add(x.Who, "sent", n, false, uid)
}

func (x *side) outcome(l *simkit.Log) outcome {
	var o outcome
	for _, e := range simkit.For(l.Events(), x.Who) {
		switch e.Kind {
		case "state":
			o.LastState = e.N
			if e.N == 38 {
				o.Complete = true
			}
		case "setup":
			o.Setups++
		case "shipid":
			o.ShipIDs = append(o.ShipIDs, e.S)
		case "closed":
			o.CloseRep++
		case "payload":
			o.Payloads++
		}
	}
	o.Ended = x.W.Closed()
	return o
}
