// Package timers: engine B4 - arm/stop/re-arm programs on real ShipConnections inside a synctest
// bubble. The harness knows every arm/stop it issued; a timeout delivery (visible as the error
// report of a connection parked in the CMI wait state) must happen exactly when the most recently
// armed, not stopped timer is due, and never otherwise (C14).
package timers

import (
	"encoding/json"
	"fmt"
	"os"
	"runtime"
	"strconv"
	"strings"
	"sync"
	"testing"
	"testing/synctest"
	"time"

	"verif/h26/simkit"
	vc "verifcommon"
)

const engine = "timers"
const prop = "C14"

type Op struct {
	Kind string        `json:"k"` // arm, stop, sleep, yield, wait
	D    time.Duration `json:"d,omitempty"`
}

type Program struct {
	Ops []Op `json:"ops"`
}

type Scenario struct {
	ID       string    `json:"id"`
	Kind     string    `json:"kind"` // hook | flow-complete | flow-pending
	Programs []Program `json:"programs"`
	Procs    int       `json:"procs"`
}

var durations = []time.Duration{time.Millisecond, 10 * time.Millisecond, 100 * time.Millisecond, time.Second, 5 * time.Second}

func genProgram(r *vc.Rand, single bool) Program {
	var p Program
	n := r.Range(1, 14)
	for i := 0; i < n; i++ {
		switch x := r.Intn(10); {
		case x < 4:
			p.Ops = append(p.Ops, Op{Kind: "arm", D: vc.Pick(r, durations)})
		case x < 7:
			p.Ops = append(p.Ops, Op{Kind: "stop"})
		case x < 8 && single:
			// several goroutines arm short timers on the same connection at once (Run racing the first
			// message, an approval racing a hello); a sequential arm or stop follows at once, so the
			// model knows the current timer again
			p.Ops = append(p.Ops, Op{Kind: "carm", D: vc.Pick(r, durations[:3])})
			if r.Bool() {
				p.Ops = append(p.Ops, Op{Kind: "arm", D: vc.Pick(r, durations)})
			} else {
				p.Ops = append(p.Ops, Op{Kind: "stop"})
			}
		case x < 8:
			p.Ops = append(p.Ops, Op{Kind: "yield"})
		case x < 9 && single:
			p.Ops = append(p.Ops, Op{Kind: "wait"})
		default:
			d := vc.Pick(r, durations)
			switch r.Intn(3) {
			case 0:
				d = d / 2
			case 1:
				d = d * 2
			}
			p.Ops = append(p.Ops, Op{Kind: "sleep", D: d})
		}
	}
	return p
}

// model: when is a timeout delivery due? returns -1 if none.
type obs struct {
	Expected time.Duration   `json:"expected"` // -1: no delivery expected
	Fired    []time.Duration `json:"fired"`
	Trace    []string        `json:"trace"`
}

func runHook(t *testing.T, sc *Scenario) (out []obs, bubbleErr string) {
	out = make([]obs, len(sc.Programs))
	bubbleErr = simkit.Bubble(t, func(t *testing.T) {
		start := time.Now()
		now := func() time.Duration { return time.Since(start) }
		var wg sync.WaitGroup
		logs := make([]*simkit.Log, len(sc.Programs))
		for i := range sc.Programs {
			i := i
			l := simkit.NewLog()
			logs[i] = l
			l.Add("H", "t0", 0, false, "") // virtual time base inside the bubble
			ep := simkit.NewEndpoint(l, simkit.EndpointCfg{Who: "E", Server: true, AllowWait: true})
			wg.Add(1)
			go func() {
				defer wg.Done()
				o := &out[i]
				ep.Conn.Run() // parks in CMI server wait with the 10 s timer armed
				due := now() + 10*time.Second
				armed := true
				o.Expected = -1
				tr := func(s string) { o.Trace = append(o.Trace, fmt.Sprintf("%v %s", now(), s)) }
				tr("run: armed 10s")
				settle := func() {
					// an armed timer that became due while this program slept has fired
					if armed && o.Expected < 0 && due <= now() {
						o.Expected = due
						armed = false
					}
				}
				for _, op := range sc.Programs[i].Ops {
					if o.Expected >= 0 {
						break // the connection is in error state now: further timeouts have no visible effect
					}
					switch op.Kind {
					case "arm":
						ep.Conn.VerifArmTimer(0, op.D)
						due, armed = now()+op.D, true
						tr("arm " + op.D.String())
					case "carm":
						var cwg sync.WaitGroup
						for k := 0; k < 6; k++ {
							cwg.Add(1)
							go func() {
								defer cwg.Done()
								ep.Conn.VerifArmTimer(0, op.D)
							}()
						}
						cwg.Wait()
						// one of them is current now; the next op (arm or stop) replaces or stops it
						due, armed = now()+op.D, true
						tr("concurrent arm x6 " + op.D.String())
					case "stop":
						ep.Conn.VerifStopTimer()
						armed = false
						tr("stop")
					case "yield":
						runtime.Gosched()
					case "wait":
						synctest.Wait()
					case "sleep":
						time.Sleep(op.D)
						tr("slept " + op.D.String())
						settle()
					}
				}
				if armed && o.Expected < 0 {
					o.Expected = due
				}
			}()
		}
		wg.Wait()
		time.Sleep(30 * time.Second) // past every duration
		synctest.Wait()
		for i, l := range logs {
			for _, e := range l.Events() {
				if e.Kind == "state" && e.N == 39 {
					out[i].Fired = append(out[i].Fired, e.VT)
					break
				}
			}
			n := 0
			for _, e := range l.Events() {
				if e.Kind == "closed" {
					n++
				}
			}
			if n > 1 {
				out[i].Trace = append(out[i].Trace, fmt.Sprintf("closed reported %d times", n))
			}
		}
		time.Sleep(time.Hour)
		synctest.Wait()
	})
	if bubbleErr == simkit.RaceOrFailNow {
		bubbleErr = ""
	}
	return out, bubbleErr
}

// flow: a complete cooperative handshake with immediate answers, then a long idle phase: no timer
// of an earlier phase may tear the connection down.
func runFlowComplete(t *testing.T, server, racing bool) (evs []simkit.Ev, bubbleErr string) {
	l := simkit.NewLog()
	bubbleErr = simkit.Bubble(t, func(t *testing.T) {
		ep := simkit.NewEndpoint(l, simkit.EndpointCfg{Who: "E", Server: server, Paired: true, AllowWait: true, LocalID: "L", StoredRemoteID: ""})
		ep.Conn.Run()
		acc := 0
		for k := 0; k < 12; k++ {
			if !racing {
				synctest.Wait()
			}
			var in simkit.Input
			switch int(ep.Conn.VerifState()) {
			case 2, 4:
				in = simkit.MsgInit()
			case 8, 11:
				in = simkit.HelloReady()
			case 20:
				in = simkit.ProtAnnounce()
			case 21, 22:
				in = simkit.ProtSelect()
			case 27:
				in = simkit.PinNone()
			case 36:
				if acc == 0 {
					in = simkit.AccessRequest(0)
				} else {
					in = simkit.AccessMethods(`"R"`, "")
				}
				acc++
			default:
				continue
			}
			ep.Conn.HandleIncomingWebsocketMessage(in.Msg)
		}
		l.Add("H", "idle", 0, false, "")
		time.Sleep(15 * time.Minute)
		synctest.Wait()
		ep.Snap("idle-end")
		l.Add("H", "end", 0, false, "")
		ep.Conn.CloseConnection(false, 0, "")
		time.Sleep(time.Hour)
		synctest.Wait()
	})
	if bubbleErr == simkit.RaceOrFailNow {
		bubbleErr = ""
	}
	return l.Events(), bubbleErr
}

// flow: untrusted server waiting for the user; the peer answers every prolongation request at
// once. Requests may only be sent 30 s after the last (re)start of the prolongation timer.
func runFlowPending(t *testing.T, racing bool, rounds int) (evs []simkit.Ev, bubbleErr string) {
	l := simkit.NewLog()
	bubbleErr = simkit.Bubble(t, func(t *testing.T) {
		ep := simkit.NewEndpoint(l, simkit.EndpointCfg{Who: "E", Server: true, AllowWait: true, LocalID: "L"})
		woke := make(chan struct{}, 4)
		ep.W.OnWrite = func() {
			select {
			case woke <- struct{}{}:
			default:
			}
		}
		ep.Conn.Run()
		if !racing {
			synctest.Wait()
		}
		ep.Conn.HandleIncomingWebsocketMessage(simkit.MsgInit().Msg)
		if !racing {
			synctest.Wait()
		}
		ep.W.Take()
		l.Add("H", "rearm", 0, false, "")
		ep.Conn.HandleIncomingWebsocketMessage(simkit.HelloReady().Msg) // peer is ready and waits 60 s: request due in 30 s
		for k := 0; k < rounds; k++ {
			select {
			case <-woke:
			case <-time.After(5 * time.Minute):
			}
			synctest.Wait()
			for _, m := range ep.W.Take() {
				if strings.Contains(string(m), "prolongationRequest") {
					l.Add("H", "rearm", 0, false, "")
					ep.Conn.HandleIncomingWebsocketMessage(simkit.HelloReady().Msg)
				}
			}
			if ep.W.Closed() {
				break
			}
		}
		l.Add("H", "end", 0, false, "")
		ep.Conn.CloseConnection(false, 0, "")
		time.Sleep(time.Hour)
		synctest.Wait()
	})
	if bubbleErr == simkit.RaceOrFailNow {
		bubbleErr = ""
	}
	return l.Events(), bubbleErr
}

func TestEngine(t *testing.T) {
	run_ := vc.LoadRun(engine)
	col := vc.NewCollector(run_)
	start, _ := strconv.Atoi(os.Getenv("VERIF_START"))
	wd := vc.NewWatchdog(col, 60*time.Second)
	wd.Attribute = func(string) string { return prop }

	evalHook := func(sc *Scenario) {
		vc.Scn(sc.ID)
		wd.Begin(sc.ID, func() any { return sc })
		old := runtime.GOMAXPROCS(sc.Procs)
		out, berr := runHook(t, sc)
		runtime.GOMAXPROCS(old)
		wd.End()
		if berr != "" {
			col.Violation(prop, "bubble:"+berr, berr, sc.ID, sc)
			return
		}
		for i, o := range out {
			arms := 0
			zeroGap := false
			ops := sc.Programs[i].Ops
			for k, op := range ops {
				if op.Kind == "arm" {
					arms++
					if k+1 < len(ops) && ops[k+1].Kind == "stop" {
						zeroGap = true
					}
				}
			}
			col.Eval(prop, arms+1)
			col.Count(prop, "arm-stop-pairs", arms+1)
			if zeroGap {
				col.Count(prop, "stop-immediately-after-arm", 1)
			}
			cls := "no-delivery-expected"
			if o.Expected >= 0 {
				cls = "delivery-expected"
			}
			conc := false
			for _, op := range ops {
				if op.Kind == "carm" {
					conc = true
				}
			}
			if conc {
				col.Count(prop, "programs-with-concurrent-arming", 1)
			}
			col.Class(prop, fmt.Sprintf("hook:%s:conns=%d:procs=%d:zero-gap=%v:concurrent-arm=%v:len=%d", cls, len(sc.Programs), sc.Procs, zeroGap, conc, len(ops)))
			wit := map[string]any{"scenario": sc, "program": i, "observation": o}
			switch {
			case o.Expected < 0 && len(o.Fired) > 0:
				col.Violation(prop, "stopped-timer-fired:hook", fmt.Sprintf("timeout delivered at %v although every armed timer had been stopped or replaced", o.Fired[0]), sc.ID, wit)
			case o.Expected >= 0 && len(o.Fired) == 0:
				col.Violation(prop, "armed-timer-silent:hook", fmt.Sprintf("no timeout delivered, expected at %v", o.Expected), sc.ID, wit)
			case o.Expected >= 0 && o.Fired[0] != o.Expected:
				col.Violation(prop, "timeout-at-wrong-time:hook", fmt.Sprintf("timeout delivered at %v, the current timer was due at %v", o.Fired[0], o.Expected), sc.ID, wit)
			}
			for _, s := range o.Trace {
				if strings.HasPrefix(s, "closed reported") {
					col.Violation(prop, "double-delivery:hook", s, sc.ID, wit)
				}
			}
			if col.WantSample(prop) {
				col.Sample(prop, map[string]any{"program": ops, "expected": o.Expected.String(), "fired": fmt.Sprint(o.Fired)})
			}
		}
	}

	if run_.Replay != "" {
		var rp struct {
			Witness struct {
				Scenario Scenario `json:"scenario"`
			} `json:"witness"`
		}
		b, err := os.ReadFile(run_.Replay)
		if err == nil && json.Unmarshal(b, &rp) == nil && rp.Witness.Scenario.ID != "" {
			evalHook(&rp.Witness.Scenario)
		}
		col.Write(true)
		return
	}

	n := run_.N(1500, 150000)
	for i := 0; i < n; i++ {
		if !run_.Mine(i) || i < start {
			continue
		}
		r := vc.NewRand(run_.Seed, engine, uint64(i))
		sc := &Scenario{Kind: "hook", Procs: vc.Pick(r, []int{1, 2, 4, 8})}
		conns := vc.Pick(r, []int{1, 1, 4, 16, 64})
		for k := 0; k < conns; k++ {
			sc.Programs = append(sc.Programs, genProgram(r, conns == 1))
		}
		sc.ID = fmt.Sprintf("%s/%d/hook/conns=%d", engine, i, conns)
		evalHook(sc)
		if i%200 == 0 {
			col.Write(false)
		}
	}

	// protocol flows
	nf := run_.N(200, 20000)
	for i := 0; i < nf; i++ {
		if !run_.Mine(i) || n+i < start {
			continue
		}
		id := fmt.Sprintf("%s/%d/flow", engine, n+i)
		vc.Scn(id)
		wd.Begin(id, nil)
		racing := i%2 == 1
		old := runtime.GOMAXPROCS([]int{1, 2, 4, 8}[i%4])
		if i%3 != 0 {
			server := i%4 < 2
			evs, berr := runFlowComplete(t, server, racing)
			col.Eval(prop, 1)
			col.Class(prop, fmt.Sprintf("flow-complete:server=%v:racing=%v", server, racing))
			complete, idle := false, false
			for _, e := range evs {
				switch {
				case e.Kind == "state" && e.N == 38:
					complete = true
				case e.Kind == "idle":
					idle = true
				case e.Kind == "end":
					idle = false
				case idle && complete && (e.Kind == "state" || e.Kind == "closed" || e.Kind == "write" || e.Kind == "closeData"):
					col.Violation(prop, "timeout-after-complete:flow", e.String(), id, map[string]any{"log": simkit.Compact(evs, 80)})
					idle = false
				}
			}
			if !complete && !racing {
				col.Inconclusive(prop, "flow did not complete")
			}
			if berr != "" {
				col.Violation(prop, "bubble:"+berr, berr, id, nil)
			}
		} else {
			evs, berr := runFlowPending(t, racing, 6)
			col.Eval(prop, 1)
			col.Class(prop, fmt.Sprintf("flow-pending:racing=%v", racing))
			var last time.Duration = -1
			reqs := 0
			for _, e := range evs {
				if e.Kind == "end" {
					break
				}
				switch {
				case e.Kind == "rearm":
					last = e.VT
				case e.Kind == "write" && strings.Contains(e.S, "prolongationRequest") && last >= 0:
					reqs++
					if e.VT-last < 30*time.Second {
						col.Violation(prop, "timeout-too-early:flow-pending", fmt.Sprintf("prolongation request %v after the timer was (re)started, 30s is the earliest", e.VT-last), id, map[string]any{"log": simkit.Compact(evs, 80)})
					}
				case e.Kind == "state" && (e.N == 14 || e.N == 39) || e.Kind == "closed":
					col.Violation(prop, "pending-torn-down:flow-pending", e.String(), id, map[string]any{"log": simkit.Compact(evs, 80)})
				case e.Kind == "end":
					last = -1
				}
			}
			col.Count(prop, "prolongation-requests-observed", reqs)
			if berr != "" {
				col.Violation(prop, "bubble:"+berr, berr, id, nil)
			}
		}
		runtime.GOMAXPROCS(old)
		wd.End()
	}
	col.Write(true)
}
