package mdnssim

import (
	"errors"
	"fmt"
	"net"
	"strings"
	"sync"
	"sync/atomic"
	"testing"
	"testing/synctest"
	"time"

	"github.com/enbility/go-avahi"
	"github.com/enbility/ship-go/mdns"
	"verif/h26/simkit"
	vc "verifcommon"
)

// ---- scripted fake Avahi daemon -----------------------------------------------------------------

type fakeGroup struct {
	avahi.EntryGroupInterface
	d         *fakeDaemon
	session   int
	txt       []string
	name      string
	port      uint16
	committed bool
	freed     bool
}

func (g *fakeGroup) AddService(iface, protocol int32, flags uint32, name, serviceType, domain, host string, port uint16, txt [][]byte) error {
	g.d.mu.Lock()
	defer g.d.mu.Unlock()
	if !g.d.connected || g.session != g.d.session {
		return errors.New("avahi: not connected")
	}
	g.txt = nil
	for _, t := range txt {
		g.txt = append(g.txt, string(t))
	}
	g.name, g.port = name, port
	return nil
}

func (g *fakeGroup) Commit() error {
	g.d.mu.Lock()
	defer g.d.mu.Unlock()
	if !g.d.connected || g.session != g.d.session {
		return errors.New("avahi: not connected")
	}
	g.committed = true
	g.d.log("commit session=%d txt=%v", g.session, g.txt)
	return nil
}

type fakeBrowser struct {
	avahi.ServiceBrowserInterface
	session  int
	add, rem chan avahi.Service
	freed    bool
}

type fakeDaemon struct {
	avahi.ServerInterface
	mu                 sync.Mutex
	up                 bool
	connected          bool // the D-Bus connection of the current session is alive
	pushOnFree         bool // a browse result is delivered while the browser is being freed
	failSetup          int  // number of Setup calls that still fail although up (unavailable for n retries)
	failMode           string
	session            int // incremented by every successful Setup
	cb                 avahi.EventCB
	groups             []*fakeGroup
	browsers           []*fakeBrowser
	calls              []string
	t0                 time.Time
	shutdownReturnedAt int // index into calls when Shutdown() returned (-1 = not yet)
	services           map[string]avahi.Service
}

func (d *fakeDaemon) log(f string, a ...any) {
	d.calls = append(d.calls, fmt.Sprintf("%v ", time.Since(d.t0))+fmt.Sprintf(f, a...))
}

func (d *fakeDaemon) Setup(cb avahi.EventCB) error {
	d.mu.Lock()
	defer d.mu.Unlock()
	if !d.up {
		d.log("setup: refused (daemon down)")
		return errors.New("avahi: daemon not running")
	}
	if d.failSetup > 0 && d.failMode == "setup" {
		d.failSetup--
		d.log("setup: refused (unavailable)")
		return errors.New("avahi: unavailable")
	}
	d.session++
	d.connected = true
	d.cb = cb
	d.log("setup: ok session=%d", d.session)
	return nil
}
func (d *fakeDaemon) Start() {}
func (d *fakeDaemon) Shutdown() {
	d.mu.Lock()
	d.connected = false // the client closes its connection: no Disconnected event for that
	d.log("server-shutdown")
	d.mu.Unlock()
}
func (d *fakeDaemon) GetAPIVersion() (int32, error) {
	d.mu.Lock()
	defer d.mu.Unlock()
	if !d.connected {
		return 0, errors.New("avahi: not connected")
	}
	if d.failSetup > 0 && d.failMode == "api" {
		d.failSetup--
		d.log("api-version: failed")
		return 0, errors.New("avahi: api failure")
	}
	return 516, nil
}
func (d *fakeDaemon) ServiceBrowserNew(addChan, removeChan chan avahi.Service, iface, protocol int32, serviceType string, domain string, flags uint32) (avahi.ServiceBrowserInterface, error) {
	d.mu.Lock()
	defer d.mu.Unlock()
	if !d.connected {
		return nil, errors.New("avahi: not connected")
	}
	if d.failSetup > 0 && d.failMode == "browser" {
		d.failSetup--
		d.log("browser-new: failed")
		return nil, errors.New("avahi: browser failure")
	}
	b := &fakeBrowser{session: d.session, add: addChan, rem: removeChan}
	d.browsers = append(d.browsers, b)
	d.log("browser-new session=%d", d.session)
	return b, nil
}
func (d *fakeDaemon) ServiceBrowserFree(r avahi.ServiceBrowserInterface) {
	// browse results arrive at any time: also while the client is freeing the browser
	d.mu.Lock()
	push := d.pushOnFree
	d.mu.Unlock()
	if b, ok := r.(*fakeBrowser); ok && push && b.add != nil {
		func() {
			defer func() { _ = recover() }()
			select {
			case b.add <- avahi.Service{Name: "remote-2", Type: "_ship._tcp", Domain: "local", Interface: 1}:
			case <-time.After(2 * time.Second):
			}
		}()
	}
	d.mu.Lock()
	defer d.mu.Unlock()
	if b, ok := r.(*fakeBrowser); ok {
		b.freed = true
		d.log("browser-free session=%d", b.session)
	}
}
func (d *fakeDaemon) EntryGroupNew() (avahi.EntryGroupInterface, error) {
	d.mu.Lock()
	defer d.mu.Unlock()
	if !d.connected {
		d.log("group-new: refused (not connected)")
		return nil, errors.New("avahi: not connected")
	}
	g := &fakeGroup{d: d, session: d.session}
	d.groups = append(d.groups, g)
	d.log("group-new session=%d", d.session)
	return g, nil
}
func (d *fakeDaemon) EntryGroupFree(r avahi.EntryGroupInterface) {
	d.mu.Lock()
	defer d.mu.Unlock()
	if g, ok := r.(*fakeGroup); ok {
		g.freed = true
		d.log("group-free session=%d", g.session)
	}
}
func (d *fakeDaemon) ResolveService(iface, protocol int32, name, serviceType, domain string, aprotocol int32, flags uint32) (avahi.Service, error) {
	d.mu.Lock()
	defer d.mu.Unlock()
	if s, ok := d.services[name]; ok && d.connected {
		return s, nil
	}
	return avahi.Service{}, errors.New("avahi: resolve failed")
}

// goDown: the daemon disappears; the client library reports Disconnected on its own goroutine.
func (d *fakeDaemon) goDown() {
	d.mu.Lock()
	d.up = false
	wasConnected := d.connected
	d.connected = false
	cb := d.cb
	d.log("daemon: down")
	d.mu.Unlock()
	// the Disconnected signal is delivered once per lost connection
	if cb != nil && wasConnected {
		go cb(avahi.Disconnected)
	}
}

func (d *fakeDaemon) comeUp(failN int, mode string) {
	d.mu.Lock()
	d.up = true
	d.failSetup, d.failMode = failN, mode
	d.log("daemon: up (first %d attempts fail at %s)", failN, mode)
	d.mu.Unlock()
}

// current state as seen by the daemon
func (d *fakeDaemon) view() (browser bool, committed []string, hasGroup bool) {
	b, c, n, _ := d.viewN()
	return b, c, n > 0
}

// viewN also counts the live browsers and committed groups of the current session
func (d *fakeDaemon) viewN() (browser bool, committed []string, groups int, browsers int) {
	d.mu.Lock()
	defer d.mu.Unlock()
	for _, b := range d.browsers {
		if b.session == d.session && !b.freed {
			browser = true
			browsers++
		}
	}
	for _, g := range d.groups {
		if g.session == d.session && !g.freed && g.committed {
			groups++
			committed = g.txt
		}
	}
	return
}

func (d *fakeDaemon) currentBrowser() *fakeBrowser {
	d.mu.Lock()
	defer d.mu.Unlock()
	for i := len(d.browsers) - 1; i >= 0; i-- {
		if b := d.browsers[i]; b.session == d.session && !b.freed {
			return b
		}
	}
	return nil
}

// ---- scenarios -------------------------------------------------------------------------------------

type avOp struct {
	Kind string        `json:"kind"` // down, up, announce, unannounce, shutdown, start, push, sleep, wait
	N    int           `json:"n,omitempty"`
	Mode string        `json:"mode,omitempty"`
	D    time.Duration `json:"d,omitempty"`
}

type C19Scn struct {
	ID         string `json:"id"`
	Ops        []avOp `json:"ops"`
	PushOnFree bool   `json:"push_on_free"`
}

func genC19(r *vc.Rand) *C19Scn {
	sc := &C19Scn{PushOnFree: r.Chance(1, 3)}
	n := r.Range(2, 12)
	txtN := 0
	shut := false
	for k := 0; k < n; k++ {
		var op avOp
		switch x := r.Intn(20); {
		case x < 4:
			op = avOp{Kind: "down"}
		case x < 8:
			op = avOp{Kind: "up", N: vc.Pick(r, []int{0, 0, 1, 2, 3}), Mode: vc.Pick(r, []string{"setup", "api", "browser"})}
		case x < 11:
			txtN++
			op = avOp{Kind: "announce", N: txtN}
		case x < 13:
			op = avOp{Kind: "unannounce"}
		case x < 14 && !shut:
			op = avOp{Kind: "shutdown"}
			shut = true
		case x < 15 && shut:
			op = avOp{Kind: vc.Pick(r, []string{"shutdown", "start"})}
			if op.Kind == "start" {
				shut = false
			}
		case x < 17:
			op = avOp{Kind: "sleep", D: vc.Pick(r, []time.Duration{time.Millisecond, 499 * time.Millisecond, 999 * time.Millisecond, time.Second, 1001 * time.Millisecond, 1500 * time.Millisecond, 3 * time.Second})}
		case x < 18:
			op = avOp{Kind: "wait"}
		default:
			op = avOp{Kind: "push", N: r.Range(1, 3)}
		}
		if op.Kind != "" {
			sc.Ops = append(sc.Ops, op)
		}
	}
	return sc
}

type c19Result struct {
	Calls        []string
	Viol         []string // kind|detail
	Classes      []string
	BubbleErr    string
	ShutdownHung bool
}

func txtOf(n int) []string {
	return []string{"txtvers=1", "path=/ship/", fmt.Sprintf("id=ID-%d", n), "ski=aa", fmt.Sprintf("register=%v", n%2 == 0)}
}

func runC19(t *testing.T, sc *C19Scn) (res c19Result) {
	res.BubbleErr = simkit.Bubble(t, func(t *testing.T) {
		d := &fakeDaemon{pushOnFree: sc.PushOnFree, up: true, t0: time.Now(), shutdownReturnedAt: -1, services: map[string]avahi.Service{}}
		for i := 1; i <= 3; i++ {
			name := fmt.Sprintf("remote-%d", i)
			var txt [][]byte
			for _, s := range []string{"txtvers=1", "path=/ship/", "id=R" + fmt.Sprint(i), fmt.Sprintf("ski=%040x", i), "register=false"} {
				txt = append(txt, []byte(s))
			}
			d.services[name] = avahi.Service{Name: name, Type: "_ship._tcp", Domain: "local", Host: name + ".local", Address: fmt.Sprintf("192.168.7.%d", i), Port: 4712, Txt: txt}
		}
		var rmu sync.Mutex
		resolved := map[string]int{}
		cb := func(elements map[string]string, name, host string, addresses []net.IP, port int, remove bool) {
			rmu.Lock()
			if !remove {
				resolved[name]++
			}
			rmu.Unlock()
		}
		p := mdns.VerifNewAvahiProvider([]int32{avahi.InterfaceUnspec}, d)
		started := p.Start(true, cb)
		if !started {
			res.Viol = append(res.Viol, "start-failed|initial start against an available daemon failed")
			return
		}
		cancelPush := make(chan struct{})
		lastAnnounce := 0 // 0 = none / unannounced
		manualShutdown := false
		pushSeq := 0
		viol := func(kind, detail string) { res.Viol = append(res.Viol, kind+"|"+detail) }
		for _, op := range sc.Ops {
			switch op.Kind {
			case "down":
				d.goDown()
			case "up":
				d.comeUp(op.N, op.Mode)
			case "announce":
				if manualShutdown {
					continue // the manager drops its provider on shutdown: no API call reaches it any more
				}
				_ = p.Announce("local-service", 4711, txtOf(op.N))
				if !manualShutdown {
					lastAnnounce = op.N
				}
				d.mu.Lock()
				d.log("api: announce(txt %d)", op.N)
				d.mu.Unlock()
			case "unannounce":
				if manualShutdown {
					continue
				}
				p.Unannounce()
				lastAnnounce = 0
				d.mu.Lock()
				d.log("api: unannounce")
				d.mu.Unlock()
			case "shutdown":
				// the daemon side is quiet while the client shuts down (a send racing the close of the
				// channel would be the fake's doing, not the provider's)
				close(cancelPush)
				cancelPush = make(chan struct{})
				synctest.Wait()
				done := make(chan struct{})
				go func() { p.Shutdown(); close(done) }()
				select {
				case <-done:
				case <-time.After(30 * time.Second):
					res.ShutdownHung = true
					viol("shutdown-hangs", "Shutdown() did not return within 30 virtual seconds")
					return
				}
				manualShutdown = true
				lastAnnounce = 0
				d.mu.Lock()
				d.log("api: shutdown returned")
				d.shutdownReturnedAt = len(d.calls)
				d.mu.Unlock()
			case "start":
				d.mu.Lock()
				d.log("api: start")
				d.shutdownReturnedAt = -1
				d.mu.Unlock()
				manualShutdown = !p.Start(true, cb)
			case "sleep":
				time.Sleep(op.D)
			case "wait":
				synctest.Wait()
			case "push":
				if b := d.currentBrowser(); b != nil && !manualShutdown {
					pushSeq++
					name := fmt.Sprintf("remote-%d", op.N)
					svc := avahi.Service{Name: name, Type: "_ship._tcp", Domain: "local", Interface: 1, Protocol: 0}
					cancel := cancelPush
					go func() {
						defer func() { _ = recover() }()
						select {
						case b.add <- svc:
						case <-cancel:
						case <-time.After(5 * time.Second):
						}
					}()
				}
			}
		}
		// let the reconnect loop finish: the daemon comes back for good
		d.comeUp(0, "")
		time.Sleep(5 * time.Second)
		synctest.Wait()

		browser, committed, hasGroup := d.view()
		if _, _, ng, nb := d.viewN(); ng > 1 || nb > 1 {
			viol("duplicate-registration", fmt.Sprintf("%d committed entry groups and %d browsers alive on the current session", ng, nb))
		}
		res.Classes = append(res.Classes, fmt.Sprintf("end:shutdown=%v:announced=%v", manualShutdown, lastAnnounce != 0))
		if !manualShutdown {
			if !browser {
				viol("no-browser-after-restart", "the daemon is reachable again but no service browser exists on the current session")
			}
			if lastAnnounce != 0 && !hasGroup {
				viol("announcement-lost", fmt.Sprintf("announcement %d is active but no committed entry group exists on the current session", lastAnnounce))
			}
			if lastAnnounce == 0 && hasGroup {
				viol("announced-although-unannounced", fmt.Sprintf("no announcement is active but the daemon holds a committed entry group %v", committed))
			}
			if lastAnnounce != 0 && hasGroup && strings.Join(committed, "|") != strings.Join(txtOf(lastAnnounce), "|") {
				viol("stale-txt-announced", fmt.Sprintf("committed %v, most recently requested %v", committed, txtOf(lastAnnounce)))
			}
			// services resolved afterwards are reported again
			if b := d.currentBrowser(); b != nil {
				rmu.Lock()
				before := resolved["remote-1"]
				rmu.Unlock()
				var delivered atomic.Bool
				go func() {
					defer func() { _ = recover() }()
					select {
					case b.add <- avahi.Service{Name: "remote-1", Type: "_ship._tcp", Domain: "local", Interface: 1}:
						delivered.Store(true)
					case <-time.After(5 * time.Second):
					}
				}()
				time.Sleep(6 * time.Second)
				synctest.Wait()
				rmu.Lock()
				after := resolved["remote-1"]
				rmu.Unlock()
				if !delivered.Load() || after != before+1 {
					viol("browse-result-not-reported", fmt.Sprintf("a service found after the restart was not reported (consumed=%v, callbacks %d -> %d)", delivered.Load(), before, after))
				}
			}
		} else {
			// after a manual shutdown nothing is restarted or re-announced
			d.mu.Lock()
			from := d.shutdownReturnedAt
			if from < 0 {
				from = len(d.calls)
			}
			for _, c := range d.calls[from:] {
				if strings.Contains(c, "setup:") || strings.Contains(c, "browser-new") || strings.Contains(c, "group-new session") || strings.Contains(c, "commit") {
					viol("restart-after-shutdown", "after Shutdown() returned: "+c)
					break
				}
			}
			d.mu.Unlock()
		}
		d.mu.Lock()
		res.Calls = append([]string(nil), d.calls...)
		d.mu.Unlock()
		// end: make sure everything stops (also what a restart after shutdown may have started)
		close(cancelPush)
		synctest.Wait()
		{
			done := make(chan struct{})
			go func() { p.Shutdown(); close(done) }()
			select {
			case <-done:
			case <-time.After(30 * time.Second):
				viol("shutdown-hangs", "final Shutdown() did not return within 30 virtual seconds")
				return
			}
		}
		time.Sleep(time.Minute)
		synctest.Wait()
	})
	if res.BubbleErr == simkit.RaceOrFailNow {
		res.BubbleErr = "" // the race report is in the GORACE log; the scenario itself is evaluated as usual
	}
	return res
}

func evalC19(col *vc.Collector, sc *C19Scn, res c19Result) {
	const prop = "C19"
	col.Eval(prop, 1)
	var kinds []string
	for _, o := range sc.Ops {
		kinds = append(kinds, o.Kind)
	}
	wit := map[string]any{"scenario": sc, "daemon_log": res.Calls}
	// class: the set of (op kind, followed-by kind) pairs is large; use the multiset of kinds + end class
	seen := map[string]bool{}
	for i := 0; i+1 < len(kinds); i++ {
		seen[kinds[i]+">"+kinds[i+1]] = true
	}
	for k := range seen {
		col.Class(prop, "pair:"+k)
	}
	for _, c := range res.Classes {
		col.Class(prop, c)
	}
	for _, v := range res.Viol {
		kd := strings.SplitN(v, "|", 2)
		col.Violation(prop, kd[0], kd[1], sc.ID, wit)
	}
	if res.BubbleErr != "" {
		sig := "bubble:" + res.BubbleErr
		if strings.Contains(res.BubbleErr, "blocked goroutines remain") {
			sig = "leak:blocked-goroutines"
		}
		if strings.Contains(res.BubbleErr, "all goroutines in bubble are blocked") {
			sig = "deadlock"
		}
		col.Violation(prop, sig, res.BubbleErr, sc.ID, wit)
		return
	}
	if col.WantSample(prop) {
		col.Sample(prop, map[string]any{"ops": sc.Ops, "daemon_log_tail": tail(res.Calls, 12)})
	}
}

func tail(s []string, n int) []string {
	if len(s) > n {
		return s[len(s)-n:]
	}
	return s
}
