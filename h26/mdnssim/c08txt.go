package mdnssim

import (
	"crypto/tls"
	"fmt"
	"net"
	"strings"
	"testing"
	"testing/synctest"

	"github.com/enbility/ship-go/api"
	"github.com/enbility/ship-go/hub"
	"github.com/enbility/ship-go/mdns"
	"verif/h26/simkit"
	vc "verifcommon"
)

// C08 (mDNS part): no TXT record, host name, address list or port handed to the resolver callback
// makes the library panic; a record is present afterwards only if it is valid.

var txtVals = []string{"", "1", "2", "true", "false", "TRUE", "yes", "/ship/", "x=y", "a;b", strings.Repeat("v", 10240), "\xff\xfe", "日本", " ", "0", "-1",
	"1,2,3", "1,,3", ",", "99999999999999999999", "1,x", localSki}
var txtKeys = []string{"txtvers", "id", "path", "ski", "register", "brand", "model", "type", "serial", "cat", "", "TXTVERS", "unknown"}

func genTxt(r *vc.Rand) map[string]string {
	switch r.Intn(12) {
	case 0:
		return nil
	case 1:
		return map[string]string{}
	}
	m := map[string]string{}
	if r.Chance(2, 3) { // start from a valid record and damage it
		m = validTxt(r.Intn(3))
		if r.Chance(1, 2) {
			m["cat"] = vc.Pick(r, txtVals)
		}
		for k := 0; k < r.Intn(3); k++ {
			key := vc.Pick(r, txtKeys)
			if r.Chance(1, 3) {
				delete(m, key)
			} else {
				m[key] = vc.Pick(r, txtVals)
			}
		}
		return m
	}
	for k := 0; k < r.Range(1, 10); k++ {
		m[vc.Pick(r, txtKeys)] = vc.Pick(r, txtVals)
	}
	return m
}

func genAddrs(r *vc.Rand) []net.IP {
	switch r.Intn(8) {
	case 0:
		return nil
	case 1:
		return []net.IP{}
	case 2:
		return []net.IP{nil}
	case 3:
		return []net.IP{nil, net.ParseIP("192.168.1.1"), nil, {1, 2, 3}}
	}
	var out []net.IP
	for k := 0; k < r.Range(1, 5); k++ {
		out = append(out, net.ParseIP(vc.Pick(r, append(addrPool, "::", "0.0.0.0", "255.255.255.255", "::ffff:10.0.0.1"))))
	}
	return out
}

func isValidTxt(m map[string]string) bool {
	for _, k := range []string{"txtvers", "id", "path", "ski", "register"} {
		if _, ok := m[k]; !ok {
			return false
		}
	}
	return m["txtvers"] == "1" && m["ski"] != localSki && (m["register"] == "true" || m["register"] == "false")
}

func runC08Txt(t *testing.T, col *vc.Collector, id string, r *vc.Rand) {
	const prop = "C08"
	_ = simkit.Bubble(t, func(t *testing.T) {
		mgr := mdns.NewMDNS(localSki, "brand", "model", "type", "serial", nil, "LOCAL-ID", "local", 4711, nil, mdns.MdnsProviderSelectionAll)
		app := &recApp{}
		h := hub.NewHub(app, mgr, 4711, tls.Certificate{}, api.NewServiceDetails(localSki))
		_ = mgr.VerifAttach(nopProvider{}, h)
		cb := mgr.VerifResolveCB()
		valid := map[string]bool{}
		n := r.Range(1, 12)
		for k := 0; k < n; k++ {
			txt := genTxt(r)
			addrs := genAddrs(r)
			port := vc.Pick(r, []int{-1, 0, 1, 4712, 65535, 65536, 70000})
			remove := r.Chance(1, 4)
			name := vc.Pick(r, []string{"", "svc", strings.Repeat("n", 300), "\x00", "a.b.c"})
			host := vc.Pick(r, []string{"", "host.local.", "[::1]", "not a host", strings.Repeat("h", 500)})
			col.Eval(prop, 1)
			col.Count(prop, "txt-inputs", 1)
			cls := "txt:invalid"
			if isValidTxt(txt) {
				cls = "txt:valid"
			}
			col.Class(prop, fmt.Sprintf("%s:remove=%v:port=%d:addrs=%d", cls, remove, port, len(addrs)))
			panicked := func() (p any) {
				defer func() { p = recover() }()
				cb(txt, name, host, addrs, port, remove)
				return nil
			}()
			if panicked != nil {
				col.Violation(prop, "panic:mdns.processMdnsEntry", fmt.Sprint(panicked), id, map[string]any{"txt": txt, "addrs": fmt.Sprint(addrs), "port": port, "remove": remove})
				return
			}
			if isValidTxt(txt) {
				if remove {
					delete(valid, txt["ski"])
				} else {
					valid[txt["ski"]] = true
				}
			}
			got := mgr.VerifEntries()
			for ski := range got {
				if !valid[ski] {
					col.Violation(prop, "invalid-record-kept", fmt.Sprintf("entry %q present although no valid record announced it", ski), id, map[string]any{"txt": txt})
					return
				}
			}
		}
		synctest.Wait()
	})
}
