// Package mdnssim: engine B5 - the real MdnsManager (with a fake provider and the real, not started
// Hub behind it) and the real AvahiProvider (against a scripted fake Avahi daemon) in synctest bubbles.
package mdnssim

import (
	"crypto/tls"
	"fmt"
	"net"
	"runtime"
	"sort"
	"strings"
	"sync"
	"testing"
	"testing/synctest"
	"time"

	"github.com/enbility/ship-go/api"
	"github.com/enbility/ship-go/hub"
	"github.com/enbility/ship-go/mdns"
	"verif/h26/simkit"
	vc "verifcommon"
)

type nopProvider struct{}

func (nopProvider) Start(bool, api.MdnsResolveCB) bool   { return true }
func (nopProvider) Shutdown()                            {}
func (nopProvider) Announce(string, int, []string) error { return nil }
func (nopProvider) Unannounce()                          {}

// recApp is the application behind the hub.
type recApp struct {
	mu      sync.Mutex
	reports [][]string // SKI sets of VisibleRemoteServicesUpdated, in delivery order
}

func (a *recApp) RemoteSKIConnected(string)    {}
func (a *recApp) RemoteSKIDisconnected(string) {}
func (a *recApp) SetupRemoteDevice(string, api.ShipConnectionDataWriterInterface) api.ShipConnectionDataReaderInterface {
	return nil
}
func (a *recApp) VisibleRemoteServicesUpdated(entries []api.RemoteService) {
	var skis []string
	for _, e := range entries {
		skis = append(skis, e.Ski)
	}
	sort.Strings(skis)
	a.mu.Lock()
	a.reports = append(a.reports, skis)
	a.mu.Unlock()
}
func (a *recApp) ServiceShipIDUpdate(string, string)                            {}
func (a *recApp) ServicePairingDetailUpdate(string, *api.ConnectionStateDetail) {}
func (a *recApp) AllowWaitingForTrust(string) bool                              { return false }

type mdEvent struct {
	Kind    string   `json:"kind"` // add, remove-avahi, remove-zc, invalid-add, invalid-remove
	Svc     int      `json:"svc"`
	Addrs   []string `json:"addrs,omitempty"`
	Invalid string   `json:"invalid,omitempty"`
	Settle  bool     `json:"settle"`
}

type C17Scn struct {
	ID     string    `json:"id"`
	Events []mdEvent `json:"events"`
	Procs  int       `json:"procs"`
}

const localSki = "00000000000000000000000000000000000000ff"

func svcSki(i int) string { return fmt.Sprintf("%040x", i+1) }

func validTxt(i int) map[string]string {
	return map[string]string{"txtvers": "1", "id": fmt.Sprintf("ID-%d", i), "path": "/ship/", "ski": svcSki(i), "register": "false",
		"brand": "b", "model": "m", "type": "t"}
}

var addrPool = []string{"192.168.1.10", "192.168.1.11", "10.0.0.5", "2001:db8::1", "2001:db8::2", "fe80::1", "fe80::abcd", "169.254.1.1"}

func usable(ip net.IP) bool { return !(ip.To4() == nil && ip.IsLinkLocalUnicast()) }

func genC17(r *vc.Rand) *C17Scn {
	sc := &C17Scn{Procs: vc.Pick(r, []int{1, 4})}
	nsvc := r.Range(1, 5)
	n := r.Range(1, 40)
	burst := r.Chance(1, 2)
	for k := 0; k < n; k++ {
		e := mdEvent{Svc: r.Intn(nsvc), Settle: !burst || r.Chance(1, 6)}
		switch x := r.Intn(20); {
		case x < 10:
			e.Kind = "add"
			m := r.Range(1, 4)
			for j := 0; j < m; j++ {
				e.Addrs = append(e.Addrs, vc.Pick(r, addrPool))
			}
			if r.Chance(1, 6) && len(e.Addrs) > 0 {
				e.Addrs = append(e.Addrs, e.Addrs[0]) // duplicate inside one event
			}
		case x < 13:
			e.Kind = "remove-avahi"
		case x < 15:
			e.Kind = "remove-zc"
			e.Addrs = []string{vc.Pick(r, addrPool)}
		case x < 18:
			e.Kind = "invalid-add"
			e.Invalid = vc.Pick(r, []string{"no-txtvers", "no-id", "no-path", "no-ski", "no-register", "txtvers-2", "register-yes", "own-ski", "nil-map", "empty-map"})
			e.Addrs = []string{vc.Pick(r, addrPool)}
		default:
			e.Kind = "invalid-remove"
			e.Invalid = vc.Pick(r, []string{"no-txtvers", "no-id", "txtvers-2", "register-yes", "own-ski", "nil-map"})
		}
		sc.Events = append(sc.Events, e)
	}
	return sc
}

func invalidate(txt map[string]string, how string) map[string]string {
	switch how {
	case "no-txtvers":
		delete(txt, "txtvers")
	case "no-id":
		delete(txt, "id")
	case "no-path":
		delete(txt, "path")
	case "no-ski":
		delete(txt, "ski")
	case "no-register":
		delete(txt, "register")
	case "txtvers-2":
		txt["txtvers"] = "2"
	case "register-yes":
		txt["register"] = "yes"
	case "own-ski":
		txt["ski"] = localSki
	case "nil-map":
		return nil
	case "empty-map":
		return map[string]string{}
	}
	return txt
}

type c17Result struct {
	Mismatches  []string
	Reports     [][]string
	FinalModel  []string
	Due         bool
	InFlightMax int
	BubbleErr   string
}

func runC17(t *testing.T, sc *C17Scn) (res c17Result) {
	old := runtime.GOMAXPROCS(sc.Procs)
	defer runtime.GOMAXPROCS(old)
	res.BubbleErr = simkit.Bubble(t, func(t *testing.T) {
		mgr := mdns.NewMDNS(localSki, "brand", "model", "type", "serial", nil, "LOCAL-ID", "local", 4711, nil, mdns.MdnsProviderSelectionAll)
		app := &recApp{}
		h := hub.NewHub(app, mgr, 4711, tls.Certificate{}, api.NewServiceDetails(localSki))
		_ = mgr.VerifAttach(nopProvider{}, h)
		cb := mgr.VerifResolveCB()

		model := map[string][]string{} // ski -> usable addresses in first-seen order
		for i, e := range sc.Events {
			txt := validTxt(e.Svc)
			var ips []net.IP
			for _, a := range e.Addrs {
				ips = append(ips, net.ParseIP(a))
			}
			ski := svcSki(e.Svc)
			name := fmt.Sprintf("svc-%d", e.Svc)
			switch e.Kind {
			case "add":
				cb(txt, name, name+".local.", ips, 4712, false)
				cur, exists := model[ski]
				for _, ip := range ips {
					if !usable(ip) {
						continue
					}
					dup := false
					for _, c := range cur {
						if c == ip.String() {
							dup = true
						}
					}
					if !dup {
						cur = append(cur, ip.String())
					}
				}
				if !exists {
					res.Due = true
				} else if len(cur) != len(model[ski]) {
					res.Due = true
				}
				model[ski] = cur
			case "remove-avahi":
				cb(txt, name, name+".local.", nil, -1, true)
				if _, ok := model[ski]; ok {
					res.Due = true
				}
				delete(model, ski)
			case "remove-zc":
				cb(txt, name, name+".local.", ips, 4712, true)
				if _, ok := model[ski]; ok {
					res.Due = true
				}
				delete(model, ski)
			case "invalid-add":
				cb(invalidate(txt, e.Invalid), name, name+".local.", ips, 4712, false)
			case "invalid-remove":
				cb(invalidate(txt, e.Invalid), name, name+".local.", nil, -1, true)
			}
			if e.Settle {
				synctest.Wait()
			}
			// the manager's view after every event
			got := mgr.VerifEntries()
			if d := diffView(model, got); d != "" && len(res.Mismatches) < 5 {
				res.Mismatches = append(res.Mismatches, fmt.Sprintf("after event %d (%s svc %d %v): %s", i, e.Kind, e.Svc, e.Addrs, d))
			}
		}
		synctest.Wait()
		time.Sleep(time.Second)
		synctest.Wait()
		app.mu.Lock()
		res.Reports = append([][]string(nil), app.reports...)
		app.mu.Unlock()
		for k := range model {
			res.FinalModel = append(res.FinalModel, k)
		}
		sort.Strings(res.FinalModel)
	})
	if res.BubbleErr == simkit.RaceOrFailNow {
		res.BubbleErr = "" // the race report is in the GORACE log; the scenario itself is evaluated as usual
	}
	return res
}

func diffView(model map[string][]string, got map[string]*api.MdnsEntry) string {
	var d []string
	for ski, want := range model {
		e, ok := got[ski]
		if !ok {
			d = append(d, "missing "+ski[32:])
			continue
		}
		var have []string
		for _, a := range e.Addresses {
			have = append(have, a.String())
		}
		ws, hs := append([]string(nil), want...), append([]string(nil), have...)
		sort.Strings(ws)
		sort.Strings(hs)
		if strings.Join(ws, ",") != strings.Join(hs, ",") {
			d = append(d, fmt.Sprintf("%s addresses %v, expected %v", ski[32:], have, want))
		}
	}
	for ski := range got {
		if _, ok := model[ski]; !ok {
			d = append(d, "unexpected "+ski)
		}
	}
	sort.Strings(d)
	return strings.Join(d, "; ")
}

func evalC17(col *vc.Collector, sc *C17Scn, res c17Result) {
	const prop = "C17"
	col.Eval(prop, 1)
	wit := map[string]any{"scenario": sc, "reports": res.Reports, "final_model": res.FinalModel, "mismatches": res.Mismatches}
	if res.BubbleErr != "" {
		col.Violation(prop, "bubble:"+res.BubbleErr, res.BubbleErr, sc.ID, wit)
		return
	}
	bursts := 0
	for _, e := range sc.Events {
		if !e.Settle {
			bursts++
		}
	}
	// delivery-order signature: the sequence of reported set sizes
	var sig []string
	for _, r := range res.Reports {
		sig = append(sig, fmt.Sprint(len(r)))
	}
	col.Class(prop, fmt.Sprintf("events=%d:unsettled=%d:reports=%d:procs=%d", len(sc.Events)/5*5, min(bursts, 10), min(len(res.Reports), 12), sc.Procs))
	col.Class(prop, "delivery-sig:"+strings.Join(sig, ""))
	if bursts > 1 {
		col.Count(prop, "histories-with-reports-in-flight", 1)
	}
	for _, m := range res.Mismatches {
		kind := "view-mismatch"
		if strings.Contains(m, "addresses") {
			kind = "view-mismatch:addresses"
			if i := strings.Index(m, "): "); i >= 0 && strings.Contains(m[i:strings.Index(m, ", expected")], "fe80") {
				kind = "view-mismatch:link-local-kept"
			} else if dupInside(m) {
				kind = "view-mismatch:duplicate-address"
			}
		} else if strings.Contains(m, "missing") {
			kind = "view-mismatch:missing-service"
		} else if strings.Contains(m, "unexpected") {
			kind = "view-mismatch:unexpected-service"
		}
		col.Violation(prop, kind, m, sc.ID, wit)
		break
	}
	if res.Due {
		if len(res.Reports) == 0 {
			col.Violation(prop, "no-report-delivered", "the set changed but the application never got a list", sc.ID, wit)
		} else {
			last := res.Reports[len(res.Reports)-1]
			if strings.Join(last, ",") != strings.Join(res.FinalModel, ",") {
				col.Violation(prop, "stale-last-report", fmt.Sprintf("last delivered list has %d services, final set has %d", len(last), len(res.FinalModel)), sc.ID, wit)
			}
		}
	}
	if col.WantSample(prop) {
		col.Sample(prop, map[string]any{"events": sc.Events, "reports": res.Reports, "final": res.FinalModel})
	}
}

func dupInside(m string) bool {
	i := strings.Index(m, "addresses [")
	if i < 0 {
		return false
	}
	j := strings.Index(m[i:], "]")
	fields := strings.Fields(m[i+len("addresses [") : i+j])
	seen := map[string]bool{}
	for _, f := range fields {
		if seen[f] {
			return true
		}
		seen[f] = true
	}
	return false
}
