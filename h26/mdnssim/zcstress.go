package mdnssim

import (
	"fmt"
	"sync"
	"sync/atomic"
	"time"

	"github.com/enbility/ship-go/api"
	"github.com/enbility/ship-go/mdns"
	vc "verifcommon"
)

// C20, zeroconf part: real MdnsManagers started through the real MdnsManager.Start with the zeroconf
// provider (real multicast sockets on the sandbox's interfaces, real time, outside any bubble), used
// from several application goroutines at once while the browsers of the other managers resolve the
// announcements. The race detector is the oracle; a call that never returns is left to the watchdog.
// Where the sandbox offers no multicast-capable interface the round counts as unavailable (no verdict).

type zcReport struct {
	n atomic.Int64
}

func (r *zcReport) ReportMdnsEntries(e map[string]*api.MdnsEntry, _ bool) {
	r.n.Add(1)
	for _, v := range e {
		_ = v.Ski
		_ = len(v.Addresses)
	}
}

func runZeroconfStress(col *vc.Collector, id string, r *vc.Rand, wd *vc.Watchdog) {
	const prop = "C20"
	col.Eval(prop, 1)
	n := r.Range(2, 4)
	var mgrs []*mdns.MdnsManager
	var reps []*zcReport
	for i := 0; i < n; i++ {
		ski := fmt.Sprintf("%038x%02x", r.Uint64(), i+1)
		m := mdns.NewMDNS(ski, "brand", "model", "type", fmt.Sprintf("serial-%d", i), []api.DeviceCategoryType{1, 2}, fmt.Sprintf("ZC-ID-%d", i),
			fmt.Sprintf("verif-zc-%d-%d", i, r.Intn(1<<20)), 4711+i, nil, mdns.MdnsProviderSelectionGoZeroConfOnly)
		mgrs = append(mgrs, m)
		reps = append(reps, &zcReport{})
	}
	var wg sync.WaitGroup
	var started atomic.Int64
	var failed atomic.Int64
	ops := []string{"autoaccept", "announce", "unannounce", "request", "qr", "autoaccept"}
	for i := range mgrs {
		m, rep := mgrs[i], reps[i]
		seeds := []uint64{r.Uint64(), r.Uint64(), r.Uint64()}
		startFirst := r.Chance(2, 3)
		wg.Add(1)
		go func() {
			defer wg.Done()
			var inner sync.WaitGroup
			start := func() {
				wd.Op("zc:start")
				if err := m.Start(rep); err != nil {
					failed.Add(1)
				} else {
					started.Add(1)
				}
			}
			if startFirst {
				start()
			} else {
				inner.Add(1)
				go func() { defer inner.Done(); start() }()
			}
			for g := 0; g < 3; g++ {
				rr := vc.NewRand(seeds[g], "zc-ops", uint64(g))
				inner.Add(1)
				go func() {
					defer inner.Done()
					for k := 0; k < rr.Range(3, 8); k++ {
						op := vc.Pick(rr, ops)
						wd.Op("zc:" + op)
						col.Class(prop, "zeroconf-op:"+op)
						switch op {
						case "autoaccept":
							m.SetAutoAccept(rr.Bool())
						case "announce":
							_ = m.AnnounceMdnsEntry()
						case "unannounce":
							m.UnannounceMdnsEntry()
						case "request":
							m.RequestMdnsEntries()
						case "qr":
							_ = m.QRCodeText()
						}
						time.Sleep(time.Duration(rr.Intn(40)) * time.Millisecond)
					}
				}()
			}
			inner.Wait()
		}()
	}
	wg.Wait()
	// let the browsers resolve what is announced now
	time.Sleep(400 * time.Millisecond)
	var reports int64
	for _, rep := range reps {
		reports += rep.n.Load()
	}
	// shutdown, partly concurrent with late operations
	for i := range mgrs {
		m := mgrs[i]
		wg.Add(2)
		go func() { defer wg.Done(); wd.Op("zc:shutdown"); m.Shutdown() }()
		go func() { defer wg.Done(); wd.Op("zc:late-autoaccept"); m.SetAutoAccept(true); m.RequestMdnsEntries() }()
	}
	wg.Wait()
	if failed.Load() > 0 && started.Load() == 0 {
		col.Count(prop, "zeroconf-unavailable-rounds", 1)
		return
	}
	col.Count(prop, "zeroconf-rounds", 1)
	col.Count(prop, "zeroconf-managers-started", int(started.Load()))
	col.Count(prop, "zeroconf-reports-delivered", int(reports))
	if reports > 0 {
		col.Count(prop, "zeroconf-rounds-with-resolved-services", 1)
	}
	_ = id
}
