package mdnssim

import (
	"encoding/json"
	"fmt"
	"os"
	"strconv"
	"strings"
	"testing"
	"time"

	vc "verifcommon"
)

const engine = "mdnssim"

func TestEngine(t *testing.T) {
	run_ := vc.LoadRun(engine)
	col := vc.NewCollector(run_)
	start, _ := strconv.Atoi(os.Getenv("VERIF_START"))
	wd := vc.NewWatchdog(col, 60*time.Second)
	// the zeroconf rounds use real sockets and a third-party server whose shutdown waits for its goroutines:
	// slow under load, and only the race detector decides there
	wd.NoVerdict = func(op string) bool { return strings.HasPrefix(op, "zc:") }
	wd.Attribute = func(string) string {
		if run_.Prop == "C17" || run_.Prop == "C19" || run_.Prop == "C20" {
			return run_.Prop
		}
		return "C08"
	}
	if run_.Replay != "" {
		var rp struct {
			Property string `json:"property"`
			Witness  struct {
				Scenario json.RawMessage `json:"scenario"`
			} `json:"witness"`
		}
		b, err := os.ReadFile(run_.Replay)
		if err == nil && json.Unmarshal(b, &rp) == nil {
			switch rp.Property {
			case "C17":
				var sc C17Scn
				if json.Unmarshal(rp.Witness.Scenario, &sc) == nil && sc.ID != "" {
					evalC17(col, &sc, runC17(t, &sc))
				}
			case "C19":
				var sc C19Scn
				if json.Unmarshal(rp.Witness.Scenario, &sc) == nil && sc.ID != "" {
					evalC19(col, &sc, runC19(t, &sc))
				}
			}
		}
		col.Write(true)
		return
	}
	want := func(p string) bool { return run_.Prop == "" || run_.Prop == p || run_.Prop == "C20" }
	base := 0
	if want("C17") {
		n := run_.N(5000, 200000)
		for i := 0; i < n; i++ {
			if !run_.Mine(i) || base+i < start {
				continue
			}
			r := vc.NewRand(run_.Seed, engine+"-c17", uint64(i))
			sc := genC17(r)
			sc.ID = fmt.Sprintf("%s/%d/c17", engine, base+i)
			vc.Scn(sc.ID)
			wd.Begin(sc.ID, func() any { return sc })
			res := runC17(t, sc)
			wd.End()
			evalC17(col, sc, res)
			if i%1000 == 0 {
				col.Write(false)
			}
		}
		base += n
	}
	if want("C19") {
		n := run_.N(4000, 150000)
		for i := 0; i < n; i++ {
			if !run_.Mine(i) || base+i < start {
				continue
			}
			r := vc.NewRand(run_.Seed, engine+"-c19", uint64(i))
			sc := genC19(r)
			sc.ID = fmt.Sprintf("%s/%d/c19", engine, base+i)
			vc.Scn(sc.ID)
			wd.Begin(sc.ID, func() any { return sc })
			res := runC19(t, sc)
			wd.End()
			evalC19(col, sc, res)
			if i%1000 == 0 {
				col.Write(false)
			}
		}
		base += n
	}
	if want("C08") {
		n := run_.N(1500, 80000)
		for i := 0; i < n; i++ {
			if !run_.Mine(i) || base+i < start {
				continue
			}
			r := vc.NewRand(run_.Seed, engine+"-c08", uint64(i))
			id := fmt.Sprintf("%s/%d/c08-txt", engine, base+i)
			vc.Scn(id)
			wd.Begin(id, nil)
			runC08Txt(t, col, id, r)
			wd.End()
		}
	}
	if run_.Prop == "" || run_.Prop == "C20" {
		n := run_.N(20, 240)
		for i := 0; i < n; i++ {
			if !run_.Mine(i) {
				continue
			}
			r := vc.NewRand(run_.Seed, engine+"-zc", uint64(i))
			id := fmt.Sprintf("%s/zc/%d", engine, i)
			vc.Scn(id)
			wd.Begin(id, nil)
			runZeroconfStress(col, id, r, wd)
			wd.End()
		}
	}
	col.Write(true)
}
