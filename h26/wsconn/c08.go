package wsconn

import (
	"fmt"
	"net"
	"strings"
	"testing"
	"testing/synctest"
	"time"

	"github.com/enbility/ship-go/ws"
	"verif/h26/simkit"
	vc "verifcommon"
)

// C08 (websocket part): no frame a peer can send makes the library panic or wedges the receive loop.

type hostile struct {
	Name string
	F    Frame
	Len  int64 // length override, -1 = honest
	Raw  []byte
}

func hostileFrames(r *vc.Rand, masked bool) []hostile {
	var hs []hostile
	pl := []byte("\x01{\"x\":1}")
	for op := byte(0); op < 16; op++ {
		hs = append(hs, hostile{Name: fmt.Sprintf("opcode-%d", op), F: Frame{Fin: true, Op: op, Masked: masked, Payload: pl}, Len: -1})
	}
	for rsv := byte(1); rsv < 8; rsv++ {
		hs = append(hs, hostile{Name: fmt.Sprintf("rsv-%d", rsv), F: Frame{Fin: true, Rsv: rsv, Op: opBinary, Masked: masked, Payload: pl}, Len: -1})
	}
	hs = append(hs,
		hostile{Name: "wrong-masking", F: Frame{Fin: true, Op: opBinary, Masked: !masked, Payload: pl}, Len: -1},
		hostile{Name: "text", F: Frame{Fin: true, Op: opText, Masked: masked, Payload: []byte("hello")}, Len: -1},
		hostile{Name: "text-invalid-utf8", F: Frame{Fin: true, Op: opText, Masked: masked, Payload: []byte{0xff, 0xfe}}, Len: -1},
		hostile{Name: "binary-empty", F: Frame{Fin: true, Op: opBinary, Masked: masked}, Len: -1},
		hostile{Name: "binary-1-byte", F: Frame{Fin: true, Op: opBinary, Masked: masked, Payload: []byte{1}}, Len: -1},
		hostile{Name: "binary-64k", F: Frame{Fin: true, Op: opBinary, Masked: masked, Payload: append([]byte{1}, r.Bytes(65536)...)}, Len: -1},
		hostile{Name: "binary-1M", F: Frame{Fin: true, Op: opBinary, Masked: masked, Payload: append([]byte{1}, make([]byte, 1<<20)...)}, Len: -1},
		hostile{Name: "fragment-start-only", F: Frame{Fin: false, Op: opBinary, Masked: masked, Payload: pl}, Len: -1},
		hostile{Name: "continuation-without-start", F: Frame{Fin: true, Op: opCont, Masked: masked, Payload: pl}, Len: -1},
		hostile{Name: "len-lie-short", F: Frame{Fin: true, Op: opBinary, Masked: masked, Payload: pl}, Len: 3},
		hostile{Name: "len-lie-huge", F: Frame{Fin: true, Op: opBinary, Masked: masked, Payload: pl}, Len: 1 << 40},
		hostile{Name: "len-lie-max", F: Frame{Fin: true, Op: opBinary, Masked: masked, Payload: pl}, Len: int64(^uint64(0) >> 1)},
		hostile{Name: "ping-large", F: Frame{Fin: true, Op: opPing, Masked: masked, Payload: make([]byte, 200)}, Len: -1},
		hostile{Name: "pong-unsolicited", F: Frame{Fin: true, Op: opPong, Masked: masked, Payload: []byte("x")}, Len: -1},
		hostile{Name: "ping-fragmented", F: Frame{Fin: false, Op: opPing, Masked: masked}, Len: -1},
		hostile{Name: "raw-garbage", Raw: r.Bytes(r.Range(1, 300))},
		hostile{Name: "raw-http", Raw: []byte("GET / HTTP/1.1\r\n\r\n")},
	)
	for _, code := range []int{-1, 0, 999, 1000, 1001, 1005, 1006, 1015, 2999, 3000, 4001, 4452, 4500, 4999, 5000, 65535} {
		p := &RawPeer{asServer: !masked}
		f := p.CloseFrame(code, "bye")
		hs = append(hs, hostile{Name: fmt.Sprintf("close-%d", code), F: f, Len: -1})
	}
	hs = append(hs, hostile{Name: "close-1-byte", F: Frame{Fin: true, Op: opClose, Masked: masked, Payload: []byte{3}}, Len: -1},
		hostile{Name: "close-long-reason", F: Frame{Fin: true, Op: opClose, Masked: masked, Payload: append([]byte{3, 232}, make([]byte, 200)...)}, Len: -1},
		hostile{Name: "close-invalid-utf8", F: Frame{Fin: true, Op: opClose, Masked: masked, Payload: []byte{3, 232, 0xff}}, Len: -1})
	return hs
}

type c08Result struct {
	Before, After, Reported bool
	Closed                  bool
	Pumps                   int
	BubbleErr, SetupErr     string
}

func runC08(t *testing.T, libIsClient bool, idx int, r *vc.Rand) (name string, res c08Result) {
	res.BubbleErr = simkit.Bubble(t, func(t *testing.T) {
		c1, c2 := net.Pipe()
		fc := &FaultConn{Conn: c1}
		conn, peer, err := Connect(libIsClient, fc, c2)
		if err != nil {
			res.SetupErr = err.Error()
			_ = c1.Close()
			_ = c2.Close()
			return
		}
		hs := hostileFrames(r, !peer.asServer)
		h := hs[idx%len(hs)]
		name = h.Name
		l := simkit.NewLog()
		w := ws.NewWebsocketConnection(conn, "remote-ski")
		rd := &recReader{l: l, w: w, react: "reacting"}
		w.InitDataProcessing(rd)
		done := make(chan struct{})
		go func() {
			defer close(done)
			for {
				if _, err := peer.ReadFrame(); err != nil {
					return
				}
			}
		}()
		_ = peer.WriteFrame(peer.Binary([]byte("\x01before")), -1)
		synctest.Wait()
		if h.Raw != nil {
			_ = c2.SetWriteDeadline(time.Now().Add(20 * time.Second))
			_, _ = c2.Write(h.Raw)
		} else {
			_ = peer.WriteFrame(h.F, h.Len)
		}
		synctest.Wait()
		_ = peer.WriteFrame(peer.Binary([]byte("\x01after")), -1)
		synctest.Wait()
		time.Sleep(75 * time.Second)
		synctest.Wait()
		for _, e := range l.Events() {
			switch {
			case e.Kind == "msg" && strings.HasSuffix(e.S, "before"):
				res.Before = true
			case e.Kind == "msg" && strings.HasSuffix(e.S, "after"):
				res.After = true
			case e.Kind == "report":
				res.Reported = true
			}
		}
		res.Closed, _ = w.IsDataConnectionClosed()
		res.Pumps = pumpGoroutines()
		_ = c2.Close()
		_ = c1.Close()
		w.CloseDataConnection(4001, "")
		<-done
		time.Sleep(2 * time.Hour)
		synctest.Wait()
	})
	if res.BubbleErr == simkit.RaceOrFailNow {
		res.BubbleErr = "" // the race report is in the GORACE log; the scenario itself is evaluated as usual
	}
	return name, res
}

func evalC08(col *vc.Collector, id, name string, libIsClient bool, res c08Result) {
	const prop = "C08"
	col.Eval(prop, 1)
	if res.SetupErr != "" {
		col.Inconclusive(prop, "setup")
		return
	}
	outcome := "still-usable"
	if res.Reported || res.Closed {
		outcome = "connection-closed"
	}
	col.Class(prop, fmt.Sprintf("frame:%s:client=%v:%s", name, libIsClient, outcome))
	col.Count(prop, "hostile-frames", 1)
	wit := map[string]any{"frame": name, "lib_is_client": libIsClient, "result": res}
	if res.BubbleErr != "" {
		sig := "bubble:" + res.BubbleErr
		if strings.Contains(res.BubbleErr, "blocked goroutines remain") {
			sig = "wedge:pump-goroutine-left"
		}
		col.Violation(prop, sig+":frame:"+name, res.BubbleErr, id, wit)
		return
	}
	if !res.Before {
		col.Inconclusive(prop, "first message not delivered")
		return
	}
	// afterwards: either the connection is closed (and released) or it still delivers
	if !res.Reported && !res.Closed && !res.After {
		col.Violation(prop, "wedge:receive-loop:frame:"+name, "after the frame the connection neither closed nor delivered the next valid message within 75 virtual seconds", id, wit)
	}
	if (res.Reported || res.Closed) && res.Pumps > 0 {
		col.Violation(prop, "wedge:pump-goroutine-left:frame:"+name, fmt.Sprintf("%d pump goroutines left after the connection was closed", res.Pumps), id, wit)
	}
}
