package wsconn

import (
	"encoding/json"
	"fmt"
	"os"
	"strconv"
	"testing"
	"time"

	vc "verifcommon"
)

const engine = "wsconn"

func TestEngine(t *testing.T) {
	run_ := vc.LoadRun(engine)
	col := vc.NewCollector(run_)
	start, _ := strconv.Atoi(os.Getenv("VERIF_START"))
	wd := vc.NewWatchdog(col, 120*time.Second)
	wd.Attribute = func(op string) string {
		if run_.Prop == "C12" || run_.Prop == "C13" || run_.Prop == "C08" {
			return run_.Prop
		}
		return "C13"
	}

	if run_.Replay != "" {
		var rp struct {
			Property string `json:"property"`
			Witness  struct {
				Scenario json.RawMessage `json:"scenario"`
			} `json:"witness"`
		}
		b, err := os.ReadFile(run_.Replay)
		if err == nil && json.Unmarshal(b, &rp) == nil {
			switch rp.Property {
			case "C13":
				var sc C13Scn
				if json.Unmarshal(rp.Witness.Scenario, &sc) == nil && sc.ID != "" {
					evalC13(col, &sc, runC13(t, &sc))
				}
			case "C12":
				var sc C12Scn
				if json.Unmarshal(rp.Witness.Scenario, &sc) == nil && sc.ID != "" {
					checkC12(col, &sc, runC12(&sc))
				}
			}
		}
		col.Write(true)
		return
	}

	want := func(p string) bool { return run_.Prop == "" || run_.Prop == p || run_.Prop == "C20" }
	base := 0
	if want("C13") {
		n := run_.N(2000, 60000)
		for i := 0; i < n; i++ {
			if !run_.Mine(i) || base+i < start {
				continue
			}
			r := vc.NewRand(run_.Seed, engine+"-c13", uint64(i))
			sc := genC13(r, i)
			sc.ID = fmt.Sprintf("%s/%d/c13/%s/%s", engine, base+i, sc.Kind, sc.Reader)
			vc.Scn(sc.ID)
			wd.Begin(sc.ID, func() any { return sc })
			res := runC13(t, sc)
			wd.End()
			evalC13(col, sc, res)
			if i%300 == 0 {
				col.Write(false)
			}
		}
		base += n
	}
	if want("C08") {
		r0 := vc.NewRand(run_.Seed, engine+"-c08", 0)
		per := len(hostileFrames(r0, true))
		n := run_.N(2*per, 40*per)
		for i := 0; i < n; i++ {
			if !run_.Mine(i) || base+i < start {
				continue
			}
			r := vc.NewRand(run_.Seed, engine+"-c08", uint64(i))
			id := fmt.Sprintf("%s/%d/c08-frame", engine, base+i)
			vc.Scn(id)
			wd.Begin(id, nil)
			libIsClient := (i/per)%2 == 0
			name, res := runC08(t, libIsClient, i%per, r)
			wd.End()
			evalC08(col, id, name, libIsClient, res)
		}
		base += n
	}
	if want("C12") {
		n := run_.N(3000, 120000)
		for i := 0; i < n; i++ {
			if !run_.Mine(i) || base+i < start {
				continue
			}
			r := vc.NewRand(run_.Seed, engine+"-c12", uint64(i))
			sc := genC12(r)
			sc.ID = fmt.Sprintf("%s/%d/c12/w%d/%s/%s", engine, base+i, sc.Writers, sc.Peer, sc.Event)
			vc.Scn(sc.ID)
			wd.Begin(sc.ID, func() any { return sc })
			res := runC12(sc)
			wd.End()
			checkC12(col, sc, res)
			if i%300 == 0 {
				col.Write(false)
			}
		}
	}
	col.Write(true)
}
