package wsconn

import (
	"fmt"
	"net"
	"runtime"
	"sort"
	"strings"
	"sync"
	"sync/atomic"
	"time"

	"github.com/anishathalye/porcupine"
	"github.com/enbility/ship-go/ws"
	vc "verifcommon"
)

// C12: writing to a connection that is closing never panics or hangs; the peer receives a gap-free
// prefix of the accepted messages in acceptance order. Real time (several writers contend for the
// write mutex, which a synctest bubble cannot time).

type C12Scn struct {
	ID          string `json:"id"`
	LibIsClient bool   `json:"lib_is_client"`
	Writers     int    `json:"writers"`
	PerWriter   int    `json:"per_writer"`
	Peer        string `json:"peer"`  // prompt, slow, stalled
	Event       string `json:"event"` // local-close, local-close-reason, peer-close, peer-eof, write-fault, none
	After       int    `json:"after"` // the event fires once this many writes have been accepted
	FaultAt     int    `json:"fault_at"`
}

type wop struct {
	Writer     int    `json:"w"`
	Val        string `json:"v"`
	Call, Ret  int64
	Err        string `json:"err"`
	Panic      string `json:"panic"`
	ClosedSeen bool   `json:"closed_seen_before_call"`
	Returned   bool   `json:"returned"`
}

type c12Result struct {
	Ops       []wop
	Received  []string
	Reports   int
	Hung      int
	HungProof string
	Inconcl   string
	SetupErr  string
}

type nullReader struct {
	w       *ws.WebsocketConnection
	reports atomic.Int32
}

func (r *nullReader) HandleIncomingWebsocketMessage([]byte) {}
func (r *nullReader) ReportConnectionError(error) {
	r.reports.Add(1)
	r.w.CloseDataConnection(4001, "")
}

func writerGoroutines() (inSend int, pumps int) {
	buf := make([]byte, 8<<20)
	n := runtime.Stack(buf, true)
	for _, g := range strings.Split(string(buf[:n]), "\n\n") {
		if strings.Contains(g, "ws.(*WebsocketConnection).readShipPump") || strings.Contains(g, "ws.(*WebsocketConnection).writeShipPump") {
			pumps++
		}
		if strings.Contains(g, "ws.(*WebsocketConnection).WriteMessageToWebsocketConnection") &&
			(strings.Contains(g, "[chan send") || strings.Contains(g, "[select")) {
			inSend++
		}
	}
	return
}

func runC12(sc *C12Scn) (res c12Result) {
	c1, c2 := net.Pipe()
	fc := &FaultConn{Conn: c1}
	conn, peer, err := Connect(sc.LibIsClient, fc, c2)
	if err != nil {
		res.SetupErr = err.Error()
		_ = c1.Close()
		_ = c2.Close()
		return
	}
	if sc.Event == "write-fault" {
		fc.FailWriteAt, fc.WriteMode = sc.FaultAt, "err"
	}
	fc.Arm()
	w := ws.NewWebsocketConnection(conn, "remote-ski")
	rd := &nullReader{w: w}
	w.InitDataProcessing(rd)

	t0 := time.Now()
	now := func() int64 { return int64(time.Since(t0)) }

	var rmu sync.Mutex
	peerDone := make(chan struct{})
	release := make(chan struct{}) // closed to let a stalled peer drain at the end
	go func() {
		defer close(peerDone)
		if sc.Peer == "stalled" {
			<-release
		}
		for {
			f, err := peer.ReadFrame()
			if err != nil {
				return
			}
			if f.Op == opBinary {
				rmu.Lock()
				res.Received = append(res.Received, string(f.Payload[1:]))
				rmu.Unlock()
			}
			if sc.Peer == "slow" {
				time.Sleep(200 * time.Microsecond)
			}
		}
	}()

	var accepted atomic.Int32
	var omu sync.Mutex
	ops := make([]*wop, 0, sc.Writers*sc.PerWriter)
	var wg sync.WaitGroup
	fire := make(chan struct{})
	var fireOnce sync.Once
	for k := 0; k < sc.Writers; k++ {
		k := k
		wg.Add(1)
		go func() {
			defer wg.Done()
			for i := 0; i < sc.PerWriter; i++ {
				op := &wop{Writer: k, Val: fmt.Sprintf("w%d-%d", k, i)}
				omu.Lock()
				ops = append(ops, op)
				omu.Unlock()
				closedSeen, _ := w.IsDataConnectionClosed()
				op.ClosedSeen = closedSeen
				func() {
					defer func() {
						if p := recover(); p != nil {
							op.Panic = fmt.Sprint(p)
						}
						op.Ret = now()
						op.Returned = true
					}()
					op.Call = now()
					if err := w.WriteMessageToWebsocketConnection([]byte("\x02" + op.Val)); err != nil {
						op.Err = err.Error()
					} else if int(accepted.Add(1)) >= sc.After {
						fireOnce.Do(func() { close(fire) })
					}
				}()
				if op.Panic != "" {
					return
				}
			}
		}()
	}
	if sc.After == 0 {
		fireOnce.Do(func() { close(fire) })
	}
	writersDone := make(chan struct{})
	go func() { wg.Wait(); close(writersDone) }()

	// the closing event
	eventDone := make(chan struct{})
	go func() {
		defer close(eventDone)
		select {
		case <-fire:
		case <-writersDone:
		}
		switch sc.Event {
		case "local-close":
			w.CloseDataConnection(4001, "")
		case "local-close-reason":
			w.CloseDataConnection(4001, "close")
		case "peer-close":
			_ = peer.WriteFrame(peer.CloseFrame(1000, "bye"), -1)
		case "peer-eof":
			_ = c2.Close()
		}
	}()

	// watchdog (real time): generous; its firing alone is never a verdict
	select {
	case <-writersDone:
	case <-time.After(15 * time.Second):
		// decide from two dumps: writers parked in the queue send while both pumps are gone => nobody
		// can ever receive => the write hangs for good
		s1, p1 := writerGoroutines()
		time.Sleep(2 * time.Second)
		s2, p2 := writerGoroutines()
		closed, _ := w.IsDataConnectionClosed()
		if s1 > 0 && s2 > 0 && p1 == 0 && p2 == 0 && closed {
			res.Hung = s2
			res.HungProof = fmt.Sprintf("%d writers parked in the queue send, no pump goroutine left, connection closed", s2)
		} else {
			res.Inconcl = fmt.Sprintf("writers not finished after 15s (in-send %d/%d, pumps %d/%d, closed %v)", s1, s2, p1, p2, closed)
		}
	}
	select {
	case <-eventDone:
	case <-time.After(15 * time.Second):
		if res.Inconcl == "" && res.Hung == 0 {
			res.Inconcl = "closing event did not return within 15s"
		}
	}
	// let the peer drain what is still in flight, then tear down
	close(release)
	if sc.Event == "none" {
		// healthy session: wait until the peer has got everything that was accepted
		for i := 0; i < 2000; i++ {
			rmu.Lock()
			n := len(res.Received)
			rmu.Unlock()
			if n >= int(accepted.Load()) {
				break
			}
			time.Sleep(time.Millisecond)
		}
	} else {
		time.Sleep(2 * time.Millisecond)
	}
	w.CloseDataConnection(4001, "")
	_ = c1.Close()
	_ = c2.Close()
	select {
	case <-peerDone:
	case <-time.After(5 * time.Second):
	}
	res.Reports = int(rd.reports.Load())
	omu.Lock()
	for _, o := range ops {
		res.Ops = append(res.Ops, *o)
	}
	omu.Unlock()
	rmu.Lock()
	res.Received = append([]string(nil), res.Received...)
	rmu.Unlock()
	return res
}

func genC12(r *vc.Rand) *C12Scn {
	sc := &C12Scn{LibIsClient: r.Bool(), Writers: vc.Pick(r, []int{1, 2, 2, 4, 8, 32}), Peer: vc.Pick(r, []string{"prompt", "prompt", "slow", "stalled"})}
	sc.PerWriter = r.Range(1, 16)
	if sc.Writers*sc.PerWriter > 64 {
		sc.PerWriter = 64 / sc.Writers
	}
	sc.Event = vc.Pick(r, []string{"local-close", "local-close", "local-close-reason", "peer-close", "peer-eof", "write-fault", "none"})
	if sc.Peer == "stalled" {
		// with a peer that never reads, a close with reason and a peer close frame would have to wait
		// for the real 10 s write deadline; those run in the thorough tier only (see genC12Slow)
		sc.Event = vc.Pick(r, []string{"local-close", "peer-eof"})
	}
	total := sc.Writers * sc.PerWriter
	sc.After = r.Intn(total + 1)
	if sc.Peer == "stalled" && sc.After > 2 {
		sc.After = r.Intn(3) // at most two writes fit (one in the pipe, one in the queue)
	}
	sc.FaultAt = r.Range(1, total+1)
	return sc
}

// checkC12 applies the direct oracle and the porcupine cross-check.
func checkC12(col *vc.Collector, sc *C12Scn, res c12Result) {
	const prop = "C12"
	col.Eval(prop, 1)
	if res.SetupErr != "" {
		col.Inconclusive(prop, "setup")
		return
	}
	acc := map[string]*wop{}
	nErr, nPanic := 0, 0
	wit := map[string]any{"scenario": sc, "received": res.Received, "reports": res.Reports}
	var opsOut []wop
	for i := range res.Ops {
		o := &res.Ops[i]
		opsOut = append(opsOut, *o)
		switch {
		case o.Panic != "":
			nPanic++
		case !o.Returned:
		case o.Err != "":
			nErr++
		default:
			acc[o.Val] = o
			if o.ClosedSeen {
				col.Violation(prop, "write-accepted-after-closed:"+sc.Event, fmt.Sprintf("%s returned nil although IsDataConnectionClosed() was true before the call", o.Val), sc.ID, wit)
			}
		}
	}
	wit["ops"] = opsOut
	splitFell := false // the close fell between two writes of the same writer
	last := map[int]string{}
	for _, o := range res.Ops {
		if o.Err != "" && last[o.Writer] == "ok" {
			splitFell = true
		}
		if o.Err == "" && o.Panic == "" {
			last[o.Writer] = "ok"
		}
	}
	col.Class(prop, fmt.Sprintf("w=%d:peer=%s:event=%s:acc=%s:recv=%s:err=%v:split=%v", sc.Writers, sc.Peer, sc.Event,
		bucket(len(acc)), bucket(len(res.Received)), nErr > 0, splitFell))
	col.Count(prop, "event:"+sc.Event, 1)
	if splitFell {
		col.Count(prop, "close-between-writes-of-one-writer", 1)
	}
	// a peer that reads nothing: one message sits in the transport write, one in the queue of one; no
	// further write can have been accepted before the close, and none may be accepted afterwards
	if sc.Peer == "stalled" && len(acc) > 2 {
		col.Violation(prop, "write-accepted-without-queue-space:"+sc.Event, fmt.Sprintf("%d writes returned nil although the peer read nothing and the outgoing queue holds one message", len(acc)), sc.ID, wit)
	}
	if nPanic > 0 {
		p := ""
		for _, o := range res.Ops {
			if o.Panic != "" {
				p = o.Panic
			}
		}
		col.Violation(prop, "write-panics:"+sc.Event, p, sc.ID, wit)
	}
	if res.Hung > 0 {
		col.Violation(prop, "write-hangs:"+sc.Event, res.HungProof, sc.ID, wit)
	}
	if res.Inconcl != "" {
		col.Inconclusive(prop, "watchdog")
		return
	}
	// direct oracle
	seen := map[string]bool{}
	for i, v := range res.Received {
		o, ok := acc[v]
		if !ok {
			col.Violation(prop, "peer-got-unaccepted:"+sc.Event, v, sc.ID, wit)
			return
		}
		if seen[v] {
			col.Violation(prop, "peer-got-duplicate:"+sc.Event, v, sc.ID, wit)
			return
		}
		seen[v] = true
		for _, u := range res.Received[:i] {
			if acc[u] != nil && o.Ret < acc[u].Call { // v finished before u began, yet u arrived first
				col.Violation(prop, "peer-order:"+sc.Event, fmt.Sprintf("%s arrived before %s although %s returned before %s was called", u, v, v, u), sc.ID, wit)
				return
			}
		}
	}
	for v, o := range acc {
		if seen[v] {
			continue
		}
		for u := range seen {
			if o.Ret < acc[u].Call {
				col.Violation(prop, "peer-gap:"+sc.Event, fmt.Sprintf("%s was accepted and returned before %s was called; %s arrived, %s did not", v, u, u, v), sc.ID, wit)
				return
			}
		}
	}
	if sc.Event == "none" && len(res.Received) != len(acc) {
		col.Violation(prop, "healthy-loss", fmt.Sprintf("no closing event: accepted %d, peer received %d", len(acc), len(res.Received)), sc.ID, wit)
	}
	// porcupine cross-check (queue-prefix model)
	if len(res.Ops) <= 64 {
		if r := porcupineCheck(res); r == porcupine.Illegal {
			col.Violation(prop, "not-linearizable:"+sc.Event, "porcupine: no linearization of the accepted writes has the received sequence as a prefix", sc.ID, wit)
		} else if r == porcupine.Unknown {
			col.Inconclusive(prop, "porcupine-timeout")
		} else {
			col.Count(prop, "porcupine-ok", 1)
		}
	}
	if col.WantSample(prop) {
		col.Sample(prop, map[string]any{"scenario": sc, "accepted": len(acc), "errors": nErr, "received": res.Received})
	}
}

func bucket(n int) string {
	switch {
	case n == 0:
		return "0"
	case n <= 2:
		return "1-2"
	case n <= 8:
		return "3-8"
	}
	return "9+"
}

type pIn struct {
	Val string
	Pos int // index of the value in the sequence the peer received, -1 if it never arrived
	N   int // length of the received sequence
}

// porcupineCheck: queue-prefix model. Because every value is unique, the position of a write in the
// received sequence is known up front; the sequential specification is then deterministic:
// state = number of received values linearized so far; an accepted write that arrived at position p
// is legal iff p == state (the received sequence is reproduced in order), an accepted write that
// never arrived is legal only once the whole received sequence has been linearized (only a tail is
// lost), a refused write never changes the state.
func porcupineCheck(res c12Result) porcupine.CheckResult {
	model := porcupine.Model{
		Init: func() interface{} { return 0 },
		Step: func(state, input, output interface{}) (bool, interface{}) {
			k := state.(int)
			in := input.(pIn)
			if !output.(bool) {
				return true, k
			}
			if in.Pos >= 0 {
				return in.Pos == k, k + 1
			}
			return k == in.N, k
		},
		Equal: func(a, b interface{}) bool { return a.(int) == b.(int) },
	}
	pos := map[string]int{}
	for i, v := range res.Received {
		if _, dup := pos[v]; !dup {
			pos[v] = i
		}
	}
	var ops []porcupine.Operation
	sorted := append([]wop(nil), res.Ops...)
	sort.Slice(sorted, func(i, j int) bool { return sorted[i].Call < sorted[j].Call })
	for _, o := range sorted {
		if !o.Returned {
			continue
		}
		ok := o.Err == "" && o.Panic == ""
		p, in := pos[o.Val]
		if !in {
			p = -1
		}
		ops = append(ops, porcupine.Operation{ClientId: o.Writer, Input: pIn{Val: o.Val, Pos: p, N: len(res.Received)}, Call: o.Call, Output: ok, Return: o.Ret})
	}
	return porcupine.CheckOperationsTimeout(model, ops, 20*time.Second)
}
