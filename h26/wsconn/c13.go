package wsconn

import (
	"bytes"
	"fmt"
	"net"
	"regexp"
	"runtime"
	"strings"
	"sync"
	"testing"
	"testing/synctest"
	"time"

	"github.com/enbility/ship-go/ship"
	"github.com/enbility/ship-go/ws"
	"verif/h26/simkit"
	vc "verifcommon"
)

// C13: transport loss is reported and releases goroutines and the socket (bubble mode, virtual time).

type C13Scn struct {
	ID          string   `json:"id"`
	LibIsClient bool     `json:"lib_is_client"`
	Kind        string   `json:"kind"` // read-fault, write-fault, peer-close, peer-eof, local-close, healthy
	K           int      `json:"k"`
	Mode        string   `json:"mode"`
	Code        int      `json:"code"`
	Reason      string   `json:"reason"`
	Reader      string   `json:"reader"` // reacting, reacting-reason, passive, ship
	Steps       []string `json:"steps"`  // in, out, EVENT
}

type recReader struct {
	l     *simkit.Log
	w     *ws.WebsocketConnection
	react string
}

func (r *recReader) HandleIncomingWebsocketMessage(m []byte) {
	r.l.Add("R", "msg", len(m), false, string(m))
}

func (r *recReader) ReportConnectionError(err error) {
	es := ""
	if err != nil {
		es = err.Error()
	}
	r.l.Add("R", "report", 0, err != nil, es)
	switch r.react {
	case "reacting": // what ShipConnection.ReportConnectionError -> CloseConnection(false, 0, "") does
		r.w.CloseDataConnection(4001, "")
	case "reacting-reason": // ... and in the hello-abort states
		r.w.CloseDataConnection(4452, "Node rejected by application")
	}
	r.l.Add("R", "report-returned", 0, false, "")
}

type c13Result struct {
	Evs        []simkit.Ev
	CloseCalls int
	Pumps      int
	Closed     bool
	ClosedErr  string
	Reads      int
	Writes     int
	Faulted    bool
	BubbleErr  string
	SetupErr   string
	PeerFrames []string
}

var bubbleTag = regexp.MustCompile(`synctest bubble \d+`)

// pumpGoroutines counts the ws pump goroutines of the calling goroutine's own bubble.
func pumpGoroutines() int {
	self := make([]byte, 256)
	self = self[:runtime.Stack(self, false)]
	tag := bubbleTag.Find(self[:bytes.IndexByte(self, '\n')+1])
	buf := make([]byte, 8<<20)
	n := runtime.Stack(buf, true)
	c := 0
	for _, g := range strings.Split(string(buf[:n]), "\n\n") {
		hdr := g
		if i := strings.IndexByte(g, '\n'); i >= 0 {
			hdr = g[:i]
		}
		if tag != nil && !strings.Contains(hdr, string(tag)) {
			continue
		}
		if strings.Contains(g, "ws.(*WebsocketConnection).readShipPump") || strings.Contains(g, "ws.(*WebsocketConnection).writeShipPump") {
			c++
		}
	}
	return c
}

func runC13(t *testing.T, sc *C13Scn) (res c13Result) {
	l := simkit.NewLog()
	res.BubbleErr = simkit.Bubble(t, func(t *testing.T) {
		c1, c2 := net.Pipe()
		fc := &FaultConn{Conn: c1}
		conn, peer, err := Connect(sc.LibIsClient, fc, c2)
		if err != nil {
			res.SetupErr = err.Error()
			_ = c1.Close()
			_ = c2.Close()
			return
		}
		switch sc.Kind {
		case "read-fault":
			fc.FailReadAt, fc.ReadMode = sc.K, sc.Mode
		case "write-fault":
			fc.FailWriteAt, fc.WriteMode = sc.K, sc.Mode
		}
		w := ws.NewWebsocketConnection(conn, "remote-ski")
		if sc.Kind == "local-close-in-read" {
			// the application closes exactly while the read pump holds bytes it has just taken from the socket
			fc.HookReadAt = sc.K
			fc.AfterRead = func() {
				l.Add("H", "event", 0, false, sc.Kind)
				l.Add("A", "close-call", sc.Code, false, sc.Reason)
				w.CloseDataConnection(sc.Code, sc.Reason)
				l.Add("A", "close-ret", 0, false, "")
			}
		}
		fc.Arm()
		var prov *simkit.Provider
		if sc.Reader == "ship" {
			prov = simkit.NewProvider("E", l, true, false, true)
			_ = ship.NewConnectionHandler(prov, w, ship.ShipRoleServer, "L", "remote-ski", "")
		} else {
			rd := &recReader{l: l, w: w, react: sc.Reader}
			w.InitDataProcessing(rd)
		}
		// the peer reads everything the library sends and answers pings
		var pmu sync.Mutex
		peerDone := make(chan struct{})
		go func() {
			defer close(peerDone)
			for {
				f, err := peer.ReadFrame()
				if err != nil {
					l.Add("P", "peer-read-end", 0, false, shortErr(err))
					return
				}
				pmu.Lock()
				res.PeerFrames = append(res.PeerFrames, fmt.Sprintf("op%d:%d", f.Op, len(f.Payload)))
				pmu.Unlock()
				l.Add("P", "peer-got", int(f.Op), false, string(f.Payload))
				if f.Op == opPing {
					_ = peer.WriteFrame(Frame{Fin: true, Op: opPong, Masked: !peer.asServer, Payload: f.Payload}, -1)
				}
			}
		}()
		inN, outN := 0, 0
		for _, st := range sc.Steps {
			switch st {
			case "in":
				inN++
				m, _ := simkit.Data(fmt.Sprintf("in-%d", inN), inN)
				l.Add("P", "peer-send", inN, false, "")
				if err := peer.WriteFrame(peer.Binary(m.Msg), -1); err != nil {
					l.Add("P", "peer-send-failed", inN, false, shortErr(err))
				}
			case "out":
				outN++
				l.Add("A", "write-call", outN, false, "")
				err := w.WriteMessageToWebsocketConnection([]byte(fmt.Sprintf("\x02out-%d", outN)))
				l.Add("A", "write-ret", outN, err != nil, shortErr(err))
			case "sleep":
				time.Sleep(55 * time.Second) // a ping/pong round
			case "EVENT":
				l.Add("H", "event", 0, false, sc.Kind)
				switch sc.Kind {
				case "peer-close":
					_ = peer.WriteFrame(peer.CloseFrame(sc.Code, sc.Reason), -1)
				case "peer-eof":
					_ = c2.Close()
				case "local-close":
					l.Add("A", "close-call", sc.Code, false, sc.Reason)
					w.CloseDataConnection(sc.Code, sc.Reason)
					l.Add("A", "close-ret", 0, false, "")
				}
			}
			synctest.Wait()
		}
		time.Sleep(75 * time.Second) // beyond the pong wait
		synctest.Wait()
		res.CloseCalls = fc.CloseCalls()
		res.Pumps = pumpGoroutines()
		closed, cerr := w.IsDataConnectionClosed()
		res.Closed = closed
		if cerr != nil {
			res.ClosedErr = cerr.Error()
		}
		res.Reads, res.Writes, res.Faulted = fc.Counts()
		l.Add("H", "end", 0, false, "")
		// release everything that might still be open so that the bubble can end
		_ = c2.Close()
		_ = c1.Close()
		w.CloseDataConnection(4001, "")
		<-peerDone
		time.Sleep(2 * time.Hour)
		synctest.Wait()
	})
	if res.BubbleErr == simkit.RaceOrFailNow {
		res.BubbleErr = "" // the race report is in the GORACE log; the scenario itself is evaluated as usual
	}
	res.Evs = l.Events()
	return res
}

func genC13(r *vc.Rand, i int) *C13Scn {
	sc := &C13Scn{LibIsClient: r.Bool()}
	sc.Kind = vc.Pick(r, []string{"read-fault", "read-fault", "write-fault", "write-fault", "peer-close", "peer-eof", "local-close", "local-close", "healthy",
		"local-close-in-read", "local-close-in-read"})
	sc.Reader = vc.Pick(r, []string{"reacting", "reacting", "reacting", "reacting-reason", "ship", "passive"})
	n := r.Range(0, 8)
	for k := 0; k < n; k++ {
		sc.Steps = append(sc.Steps, vc.Pick(r, []string{"in", "out", "in", "out", "sleep"}))
	}
	ins, outs, sleeps := 0, 0, 0
	for _, st := range sc.Steps {
		switch st {
		case "in":
			ins++
		case "out":
			outs++
		case "sleep":
			sleeps++
		}
	}
	switch sc.Kind {
	case "read-fault":
		// every read index within the session: frames are read header-then-payload, pongs add reads
		sc.K, sc.Mode = r.Range(1, 2*ins+sleeps+1), vc.Pick(r, []string{"err", "eof"})
	case "write-fault":
		sc.Steps = append(sc.Steps, "out")
		sc.K, sc.Mode = r.Range(1, outs+sleeps+1), vc.Pick(r, []string{"err", "short"})
	case "peer-close":
		sc.Code = vc.Pick(r, []int{-1, 1000, 1001, 4001, 4452, 4500, r.Range(1000, 4999)})
		if sc.Code >= 0 && r.Bool() {
			sc.Reason = "bye"
		}
	case "local-close", "local-close-in-read":
		sc.Code = vc.Pick(r, []int{4001, 4452, 4500})
		if r.Bool() {
			sc.Reason = "close"
		}
		if sc.Kind == "local-close-in-read" {
			if ins == 0 {
				sc.Steps = append(sc.Steps, "in")
				ins++
			}
			sc.K = r.Range(1, 2*ins+sleeps)
		}
	}
	if sc.Kind != "read-fault" && sc.Kind != "write-fault" && sc.Kind != "healthy" && sc.Kind != "local-close-in-read" {
		pos := r.Intn(len(sc.Steps) + 1)
		sc.Steps = append(sc.Steps[:pos:pos], append([]string{"EVENT"}, sc.Steps[pos:]...)...)
	}
	// traffic after the event: nothing may be delivered any more
	for k := 0; k < r.Intn(3); k++ {
		sc.Steps = append(sc.Steps, vc.Pick(r, []string{"in", "out"}))
	}
	return sc
}

func evalC13(col *vc.Collector, sc *C13Scn, res c13Result) {
	const prop = "C13"
	col.Eval(prop, 1)
	wit := map[string]any{"scenario": sc, "close_calls": res.CloseCalls, "pumps_left": res.Pumps, "closed": res.Closed,
		"closed_err": res.ClosedErr, "reads": res.Reads, "writes": res.Writes, "log": simkit.Compact(res.Evs, 120)}
	if res.SetupErr != "" {
		col.Inconclusive(prop, "setup:"+res.SetupErr)
		return
	}
	if res.BubbleErr != "" {
		sig := "bubble:" + res.BubbleErr
		if strings.Contains(res.BubbleErr, "blocked goroutines remain") {
			sig = "leak:blocked-goroutines"
		}
		col.Violation(prop, sig+":"+sc.Kind, res.BubbleErr, sc.ID, wit)
		return
	}
	reports, msgsAfter := 0, 0
	endSeen := false
	var firstReport, closeRet int64 = -1, -1
	for _, e := range res.Evs {
		if e.Kind == "end" {
			endSeen = true
		}
		if endSeen {
			continue
		}
		switch e.Kind {
		case "report":
			reports++
			if firstReport < 0 {
				firstReport = e.Seq
			}
		case "close-ret":
			closeRet = e.Seq
		case "msg":
			if firstReport >= 0 && e.Seq > firstReport || closeRet >= 0 && e.Seq > closeRet {
				msgsAfter++
			}
		}
	}
	// did the disturbance actually happen in this session?
	disturbed := false
	switch sc.Kind {
	case "read-fault", "write-fault", "local-close-in-read":
		disturbed = res.Faulted
	case "peer-close", "peer-eof", "local-close":
		disturbed = true
	}
	kind := sc.Kind
	if (sc.Kind == "read-fault" || sc.Kind == "write-fault" || sc.Kind == "local-close-in-read") && !res.Faulted {
		kind = "healthy(fault index beyond session)"
	}
	col.Class(prop, fmt.Sprintf("%s:%s:%s:reader=%s:client=%v", kind, sc.Mode, codeClass(sc), sc.Reader, sc.LibIsClient))
	col.Count(prop, "kind:"+kind, 1)
	cls := kind + ":" + sc.Reader
	shipReader := sc.Reader == "ship"
	if shipReader {
		// reports go to the real ShipConnection: count what it told the hub
		for _, e := range res.Evs {
			if e.Kind == "closed" {
				reports++
			}
		}
	}
	deciding := sc.Reader != "passive" // the passive reader never reacts: logged only (DESIGN.md C13)
	v := func(sig, detail string) {
		if deciding {
			col.Violation(prop, sig+":"+cls, detail, sc.ID, wit)
		} else {
			col.Count(prop, "passive-reader:"+sig, 1)
		}
	}
	switch {
	case disturbed && sc.Kind != "local-close" && sc.Kind != "local-close-in-read":
		if reports == 0 {
			v("error-not-reported", "transport failed / peer closed but ReportConnectionError was never called")
		}
		if !res.Closed || res.ClosedErr == "" {
			v("closed-query-wrong", fmt.Sprintf("IsDataConnectionClosed() = (%v, %q)", res.Closed, res.ClosedErr))
		}
	case sc.Kind == "local-close" || sc.Kind == "local-close-in-read" && disturbed:
		if reports > 0 && !shipReader {
			v("error-reported-after-local-close", "deliberate local close of a healthy connection was reported as an error")
		}
		if !res.Closed {
			v("closed-query-wrong", "IsDataConnectionClosed() false after local close")
		}
	}
	if msgsAfter > 0 {
		v("message-after-end", fmt.Sprintf("%d incoming messages delivered after the error report / local close", msgsAfter))
	}
	if disturbed {
		if res.CloseCalls == 0 {
			v("socket-not-closed", "Close() was never called on the network connection (75 virtual seconds after the event)")
		}
		if res.Pumps > 0 {
			v("pump-goroutines-left", fmt.Sprintf("%d pump goroutines still alive", res.Pumps))
		}
	}
	if col.WantSample(prop) {
		col.Sample(prop, map[string]any{"scenario": sc, "reports": reports, "close_calls": res.CloseCalls, "pumps_left": res.Pumps})
	}
}

func codeClass(sc *C13Scn) string {
	if sc.Kind != "peer-close" && sc.Kind != "local-close" {
		return "-"
	}
	r := "noreason"
	if sc.Reason != "" {
		r = "reason"
	}
	return fmt.Sprintf("code%d:%s", sc.Code, r)
}
