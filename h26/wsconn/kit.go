// Package wsconn: engine B3 - the real ws.WebsocketConnection (gorilla conn) over a fault-injecting
// net.Conn, with a harness-owned raw websocket peer (own frame codec) on the other end of a net.Pipe.
package wsconn

import (
	"bufio"
	"crypto/sha1"
	"encoding/base64"
	"encoding/binary"
	"errors"
	"fmt"
	"io"
	"net"
	"net/http"
	"net/url"
	"strings"
	"sync"
	"time"

	"github.com/gorilla/websocket"
)

// ---- fault injecting conn --------------------------------------------------------------------

var errInjected = errors.New("injected transport fault")

type FaultConn struct {
	net.Conn
	mu          sync.Mutex
	armed       bool
	reads       int
	writes      int
	FailReadAt  int    // 1-based index of the read call that fails (0 = never)
	ReadMode    string // "err" | "eof"
	FailWriteAt int
	WriteMode   string // "err" | "short"
	closeCalls  int
	failed      bool
	OnClose     func()
	// HookReadAt / AfterRead: when the read with this 1-based index has returned data, AfterRead runs to
	// completion on another goroutine before the data is handed to the caller: a scheduling point between
	// "the pump took bytes from the socket" and whatever the pump does with them next
	HookReadAt int
	AfterRead  func()
	hooked     bool
}

func (f *FaultConn) Arm() {
	f.mu.Lock()
	f.armed, f.reads, f.writes = true, 0, 0
	f.mu.Unlock()
}

func (f *FaultConn) Read(p []byte) (int, error) {
	f.mu.Lock()
	if f.armed {
		f.reads++
		if f.FailReadAt != 0 && f.reads >= f.FailReadAt {
			f.failed = true
			f.mu.Unlock()
			if f.ReadMode == "eof" {
				return 0, io.EOF
			}
			return 0, errInjected
		}
	}
	idx := f.reads
	f.mu.Unlock()
	n, err := f.Conn.Read(p)
	f.mu.Lock()
	fire := f.armed && f.AfterRead != nil && !f.hooked && f.HookReadAt != 0 && idx >= f.HookReadAt && n > 0 && err == nil
	if fire {
		f.hooked = true
		f.failed = true
	}
	hook := f.AfterRead
	f.mu.Unlock()
	if fire {
		done := make(chan struct{})
		go func() { defer close(done); hook() }()
		<-done
	}
	return n, err
}

func (f *FaultConn) Write(p []byte) (int, error) {
	f.mu.Lock()
	if f.armed {
		f.writes++
		if f.FailWriteAt != 0 && f.writes >= f.FailWriteAt {
			f.failed = true
			f.mu.Unlock()
			if f.WriteMode == "short" && len(p) > 1 {
				n, _ := f.Conn.Write(p[:len(p)/2])
				return n, io.ErrShortWrite
			}
			return 0, errInjected
		}
	}
	f.mu.Unlock()
	return f.Conn.Write(p)
}

func (f *FaultConn) Close() error {
	f.mu.Lock()
	f.closeCalls++
	cb := f.OnClose
	f.mu.Unlock()
	if cb != nil {
		cb()
	}
	return f.Conn.Close()
}

func (f *FaultConn) CloseCalls() int {
	f.mu.Lock()
	defer f.mu.Unlock()
	return f.closeCalls
}

func (f *FaultConn) Counts() (reads, writes int, failed bool) {
	f.mu.Lock()
	defer f.mu.Unlock()
	return f.reads, f.writes, f.failed
}

// ---- raw websocket peer -------------------------------------------------------------------------

type Frame struct {
	Fin     bool
	Rsv     byte
	Op      byte
	Masked  bool
	Payload []byte
}

const (
	opCont   = 0
	opText   = 1
	opBinary = 2
	opClose  = 8
	opPing   = 9
	opPong   = 10
)

// RawPeer speaks websocket frames by hand on its end of the pipe.
type RawPeer struct {
	c        net.Conn
	br       *bufio.Reader
	asServer bool // the peer is the websocket server (library side is the client: its frames are masked)
	wmu      sync.Mutex
}

const wsGUID = "258EAFA5-E914-47DA-95CA-C5AB0DC85B11"

// AcceptUpgrade: the peer acts as HTTP server for the library's client handshake.
func (p *RawPeer) AcceptUpgrade() error {
	req, err := http.ReadRequest(p.br)
	if err != nil {
		return err
	}
	key := req.Header.Get("Sec-Websocket-Key")
	h := sha1.Sum([]byte(key + wsGUID))
	resp := "HTTP/1.1 101 Switching Protocols\r\nUpgrade: websocket\r\nConnection: Upgrade\r\nSec-WebSocket-Accept: " +
		base64.StdEncoding.EncodeToString(h[:]) + "\r\nSec-WebSocket-Protocol: ship\r\n\r\n"
	_, err = p.c.Write([]byte(resp))
	return err
}

// RequestUpgrade: the peer acts as HTTP client towards the library's upgrader.
func (p *RawPeer) RequestUpgrade() error {
	req := "GET /ship/ HTTP/1.1\r\nHost: peer\r\nUpgrade: websocket\r\nConnection: Upgrade\r\nSec-WebSocket-Key: dGhlIHNhbXBsZSBub25jZQ==\r\n" +
		"Sec-WebSocket-Version: 13\r\nSec-WebSocket-Protocol: ship\r\n\r\n"
	if _, err := p.c.Write([]byte(req)); err != nil {
		return err
	}
	resp, err := http.ReadResponse(p.br, nil)
	if err != nil {
		return err
	}
	if resp.StatusCode != 101 {
		return fmt.Errorf("upgrade refused: %d", resp.StatusCode)
	}
	return nil
}

func (p *RawPeer) ReadFrame() (Frame, error) {
	var f Frame
	var h [2]byte
	if _, err := io.ReadFull(p.br, h[:]); err != nil {
		return f, err
	}
	f.Fin = h[0]&0x80 != 0
	f.Rsv = (h[0] >> 4) & 7
	f.Op = h[0] & 0x0f
	f.Masked = h[1]&0x80 != 0
	n := uint64(h[1] & 0x7f)
	switch n {
	case 126:
		var b [2]byte
		if _, err := io.ReadFull(p.br, b[:]); err != nil {
			return f, err
		}
		n = uint64(binary.BigEndian.Uint16(b[:]))
	case 127:
		var b [8]byte
		if _, err := io.ReadFull(p.br, b[:]); err != nil {
			return f, err
		}
		n = binary.BigEndian.Uint64(b[:])
	}
	var key [4]byte
	if f.Masked {
		if _, err := io.ReadFull(p.br, key[:]); err != nil {
			return f, err
		}
	}
	if n > 1<<22 {
		return f, fmt.Errorf("frame too large: %d", n)
	}
	f.Payload = make([]byte, n)
	if _, err := io.ReadFull(p.br, f.Payload); err != nil {
		return f, err
	}
	if f.Masked {
		for i := range f.Payload {
			f.Payload[i] ^= key[i%4]
		}
	}
	return f, nil
}

// WriteFrame writes a frame; lenOverride (if >= 0) lies about the payload length.
func (p *RawPeer) WriteFrame(f Frame, lenOverride int64) error {
	p.wmu.Lock()
	defer p.wmu.Unlock()
	var b []byte
	b0 := f.Op&0x0f | f.Rsv<<4
	if f.Fin {
		b0 |= 0x80
	}
	b = append(b, b0)
	n := int64(len(f.Payload))
	if lenOverride >= 0 {
		n = lenOverride
	}
	mb := byte(0)
	if f.Masked {
		mb = 0x80
	}
	switch {
	case n < 126:
		b = append(b, mb|byte(n))
	case n < 65536:
		b = append(b, mb|126, byte(n>>8), byte(n))
	default:
		b = append(b, mb|127)
		var l [8]byte
		binary.BigEndian.PutUint64(l[:], uint64(n))
		b = append(b, l[:]...)
	}
	pl := append([]byte(nil), f.Payload...)
	if f.Masked {
		key := [4]byte{0x12, 0x34, 0x56, 0x78}
		b = append(b, key[:]...)
		for i := range pl {
			pl[i] ^= key[i%4]
		}
	}
	b = append(b, pl...)
	_ = p.c.SetWriteDeadline(time.Now().Add(20 * time.Second))
	_, err := p.c.Write(b)
	return err
}

// Binary is a well-formed data frame in the direction peer -> library.
func (p *RawPeer) Binary(payload []byte) Frame {
	return Frame{Fin: true, Op: opBinary, Masked: !p.asServer, Payload: payload}
}

func (p *RawPeer) CloseFrame(code int, reason string) Frame {
	var pl []byte
	if code >= 0 {
		pl = append(pl, byte(code>>8), byte(code))
		pl = append(pl, reason...)
	}
	return Frame{Fin: true, Op: opClose, Masked: !p.asServer, Payload: pl}
}

// ---- connection set-up ---------------------------------------------------------------------------

type hijackWriter struct {
	conn net.Conn
	brw  *bufio.ReadWriter
	hdr  http.Header
}

func (h *hijackWriter) Header() http.Header         { return h.hdr }
func (h *hijackWriter) Write(b []byte) (int, error) { return h.conn.Write(b) }
func (h *hijackWriter) WriteHeader(int)             {}
func (h *hijackWriter) Hijack() (net.Conn, *bufio.ReadWriter, error) {
	return h.conn, h.brw, nil
}

// Connect builds a gorilla conn for the library on a FaultConn and a RawPeer on the other pipe end.
// libIsClient selects which side of the websocket handshake the library plays.
func Connect(libIsClient bool, fc *FaultConn, peerEnd net.Conn) (*websocket.Conn, *RawPeer, error) {
	peer := &RawPeer{c: peerEnd, br: bufio.NewReaderSize(peerEnd, 1<<16), asServer: libIsClient}
	errc := make(chan error, 1)
	if libIsClient {
		go func() { errc <- peer.AcceptUpgrade() }()
		u, _ := url.Parse("ws://peer/ship/")
		conn, _, err := websocket.NewClient(fc, u, http.Header{"Sec-WebSocket-Protocol": {"ship"}}, 1024, 1024)
		if err != nil {
			return nil, nil, err
		}
		if err := <-errc; err != nil {
			return nil, nil, err
		}
		return conn, peer, nil
	}
	go func() { errc <- peer.RequestUpgrade() }()
	br := bufio.NewReader(fc)
	req, err := http.ReadRequest(br)
	if err != nil {
		return nil, nil, err
	}
	up := websocket.Upgrader{ReadBufferSize: 1024, WriteBufferSize: 1024, Subprotocols: []string{"ship"},
		CheckOrigin: func(*http.Request) bool { return true }}
	hw := &hijackWriter{conn: fc, brw: bufio.NewReadWriter(br, bufio.NewWriter(fc)), hdr: http.Header{}}
	conn, err := up.Upgrade(hw, req, nil)
	if err != nil {
		return nil, nil, err
	}
	if err := <-errc; err != nil {
		return nil, nil, err
	}
	return conn, peer, nil
}

func isTimeout(err error) bool {
	var ne net.Error
	return errors.As(err, &ne) && ne.Timeout()
}

func shortErr(err error) string {
	if err == nil {
		return ""
	}
	s := err.Error()
	if i := strings.LastIndex(s, ": "); i >= 0 && len(s) > 60 {
		s = s[i+2:]
	}
	return s
}
