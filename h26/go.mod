module verif/h26

go 1.26

require (
	github.com/anishathalye/porcupine v1.3.0
	github.com/enbility/go-avahi v0.0.0-20240909195612-d5de6b280d7a
	github.com/enbility/ship-go v0.0.0
	github.com/gorilla/websocket v1.5.3
	verifcommon v0.0.0
)

require gitlab.com/c0b/go-ordered-json v0.0.0-20201030195603-febf46534d5a // indirect

replace github.com/enbility/ship-go => /repo

replace verifcommon => ../common
