package pure

import "verifcommon/jdoc"

// the JSON document model (generator, reference transform, oracle) lives in verifcommon/jdoc so that
// the bubble engines can use it for the end-to-end part of C07

type Node = jdoc.Node
type GenOpts = jdoc.GenOpts

var (
	Parse    = jdoc.Parse
	Text     = jdoc.Text
	Equal    = jdoc.Equal
	Shape    = jdoc.Shape
	Features = jdoc.Features
	GenDoc   = jdoc.GenDoc
	genValue = jdoc.GenValue
)
