package pure

import (
	"crypto/ecdsa"
	"crypto/sha1"
	"crypto/x509"
	"fmt"
	"regexp"

	"github.com/enbility/ship-go/cert"
	vc "verifcommon"
)

// C02 (generator part): certificates from the library's own generator always pass and carry the SKI
// as 40 lower-case hex digits equal to SHA-1 of the certificate's public key.

var hex40 = regexp.MustCompile(`^[0-9a-f]{40}$`)

// KeySKI is the derivation SHIP mandates: SHA-1 over the subjectPublicKey bit string
// (for an EC key the uncompressed point), independent of the library code.
func KeySKI(c *x509.Certificate) (string, error) {
	pub, ok := c.PublicKey.(*ecdsa.PublicKey)
	if !ok {
		return "", fmt.Errorf("not an ECDSA key")
	}
	e, err := pub.ECDH()
	if err != nil {
		return "", err
	}
	sum := sha1.Sum(e.Bytes())
	return fmt.Sprintf("%x", sum[:]), nil
}

func runC02Gen(run *vc.Run, col *vc.Collector) {
	const prop = "C02"
	n := run.N(300, 6000)
	for i := 0; i < n; i++ {
		if !run.Mine(i) {
			continue
		}
		r := vc.NewRand(run.Seed, "pure-c02", uint64(i))
		ou, o, c, cn := genField(r, 80), genField(r, 80), genField(r, 10), genField(r, 80)
		id := fmt.Sprintf("pure-c02/%d", i)
		col.Eval(prop, 1)
		tc, err := cert.CreateCertificate(ou, o, c, cn)
		wit := map[string]any{"ou": ou, "o": o, "c": c, "cn": cn}
		if err != nil {
			// x509 refuses subjects it cannot encode (invalid UTF-8): not a statement about SKIs
			col.Class(prop, "gen:refused")
			col.Count(prop, "generator-refused", 1)
			continue
		}
		col.Class(prop, "gen:ok:"+fmt.Sprint(len(fieldClass("s", ou+o+c+cn))))
		leaf, err := x509.ParseCertificate(tc.Certificate[0])
		if err != nil {
			col.Violation(prop, "generator:unparsable", err.Error(), id, wit)
			continue
		}
		ski, err := cert.SkiFromCertificate(leaf)
		if err != nil {
			col.Violation(prop, "generator:ski-rejected", err.Error(), id, wit)
			continue
		}
		if !hex40.MatchString(ski) {
			col.Violation(prop, "generator:ski-format", ski, id, wit)
		}
		want, err := KeySKI(leaf)
		if err != nil || want != ski {
			col.Violation(prop, "generator:ski-not-key-hash", fmt.Sprintf("ski %s key hash %s (%v)", ski, want, err), id, wit)
		}
		if col.WantSample(prop) {
			col.Sample(prop, map[string]any{"subject": wit, "ski": ski})
		}
	}
}
