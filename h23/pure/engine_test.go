package pure

import (
	"os"
	"strconv"
	"testing"

	vc "verifcommon"
)

// TestEngine is the entry point the driver calls.
func TestEngine(t *testing.T) {
	run := vc.LoadRun("pure")
	col := vc.NewCollector(run)
	start, _ := strconv.Atoi(os.Getenv("VERIF_START"))
	_ = start
	switch run.Prop {
	case "C07":
		runC07(run, col)
	case "C16":
		runC16(run, col)
	case "C02":
		runC02Gen(run, col)
	default:
		runC07(run, col)
		runC16(run, col)
		runC02Gen(run, col)
	}
	col.Write(true)
}
