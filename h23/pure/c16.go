package pure

import (
	"errors"
	"fmt"
	"net"
	"sort"
	"strings"
	"unicode/utf8"

	"github.com/enbility/ship-go/api"
	"github.com/enbility/ship-go/mdns"
	vc "verifcommon"
)

// C16: what a service announces via mDNS is what a ship-go browser reads back; QR text parses back.

type capProvider struct {
	txts     [][]string
	names    []string
	ports    []int
	failNext bool // the next Announce fails (daemon unavailable)
}

func (p *capProvider) Start(autoReconnect bool, cb api.MdnsResolveCB) bool { return true }
func (p *capProvider) Shutdown()                                           {}
func (p *capProvider) Announce(serviceName string, port int, txt []string) error {
	if p.failNext {
		p.failNext = false
		return errors.New("announce failed")
	}
	p.txts = append(p.txts, append([]string(nil), txt...))
	p.names = append(p.names, serviceName)
	p.ports = append(p.ports, port)
	return nil
}
func (p *capProvider) Unannounce() {}

type c16Config struct {
	Ski, Brand, Model, Type, Serial, ID, Name string
	Cats                                      []uint
	Auto                                      bool
	Port                                      int
}

var c16Pieces = []string{"a", "B", "7", " ", "=", ";", ":", ",", "ä", "€", "日", "😀", "-", "_", "SHIP", "ENDSHIP", "ID", "/", "\xff", "é"}

func genField(r *vc.Rand, maxLen int) string {
	switch r.Intn(10) {
	case 0:
		return ""
	case 1, 2: // plain ascii
		n := r.Range(1, maxLen)
		b := make([]byte, n)
		for i := range b {
			b[i] = "abcdefghijklmnopqrstuvwxyzABCDEFGHIJKLMNOPQRSTUVWXYZ0123456789 -_"[r.Intn(65)]
		}
		return string(b)
	case 3, 4: // multi-byte rune straddling byte 32
		pre := r.Range(29, 32)
		var sb strings.Builder
		for sb.Len() < pre {
			sb.WriteByte(byte('a' + r.Intn(26)))
		}
		s := sb.String()[:pre]
		s += vc.Pick(r, []string{"ä", "€", "日", "😀"})
		for i := 0; i < r.Intn(20); i++ {
			s += vc.Pick(r, []string{"x", "ö", "語"})
		}
		return s
	}
	n := r.Range(1, 40)
	var sb strings.Builder
	for i := 0; i < n && sb.Len() < maxLen; i++ {
		p := vc.Pick(r, c16Pieces)
		if p == "\xff" && !r.Chance(1, 8) {
			p = "z"
		}
		sb.WriteString(p)
	}
	return sb.String()
}

func genHexSki(r *vc.Rand) string {
	b := make([]byte, 40)
	for i := range b {
		b[i] = "0123456789abcdef"[r.Intn(16)]
	}
	return string(b)
}

func genC16(r *vc.Rand) c16Config {
	c := c16Config{Port: r.Intn(65536), Auto: r.Bool()}
	if r.Chance(9, 10) {
		c.Ski = genHexSki(r)
	} else {
		c.Ski = genField(r, 60)
	}
	c.Brand, c.Model, c.Type, c.Serial = genField(r, 200), genField(r, 200), genField(r, 200), genField(r, 200)
	if r.Chance(2, 3) {
		c.ID = "Demo-" + genHexSki(r)[:12]
	} else {
		c.ID = genField(r, 80)
	}
	c.Name = "svc" + genHexSki(r)[:6]
	switch r.Intn(4) {
	case 0:
	case 1:
		c.Cats = []uint{uint(r.Range(1, 7))}
	default:
		for i := 0; i < r.Range(1, 5); i++ {
			if r.Chance(1, 5) {
				c.Cats = append(c.Cats, uint(r.Uint64()%(1<<32)))
			} else {
				c.Cats = append(c.Cats, uint(r.Range(1, 7)))
			}
		}
	}
	return c
}

func fieldClass(name, s string) []string {
	var f []string
	if s == "" {
		f = append(f, name+":empty")
	}
	if strings.Contains(s, "=") {
		f = append(f, name+":equals")
	}
	if strings.Contains(s, ";") {
		f = append(f, name+":semicolon")
	}
	if strings.Contains(s, ":") {
		f = append(f, name+":colon")
	}
	if !utf8.ValidString(s) {
		f = append(f, name+":invalid-utf8")
	}
	if len(s) > 32 {
		if !utf8.RuneStart(s[32]) {
			f = append(f, name+":rune-at-boundary")
		} else {
			f = append(f, name+":long")
		}
	}
	return f
}

// first '=' splits key and value: the TXT wire format (RFC 6763 6.4)
func splitTxt(txt []string) (map[string]string, []string) {
	m := map[string]string{}
	var dup []string
	for _, t := range txt {
		k, v, ok := strings.Cut(t, "=")
		if !ok {
			continue
		}
		if _, exists := m[k]; exists {
			dup = append(dup, k)
		}
		m[k] = v
	}
	return m, dup
}

// strict parser of SHIP;KEY:VALUE;...;ENDSHIP;
func parseQR(s string) (map[string]string, error) {
	if !strings.HasPrefix(s, "SHIP;") {
		return nil, fmt.Errorf("missing SHIP; prefix")
	}
	if !strings.HasSuffix(s, "ENDSHIP;") {
		return nil, fmt.Errorf("missing ENDSHIP; suffix")
	}
	body := s[len("SHIP;") : len(s)-len("ENDSHIP;")]
	out := map[string]string{}
	if body == "" {
		return out, nil
	}
	if !strings.HasSuffix(body, ";") {
		return nil, fmt.Errorf("body not terminated by ;")
	}
	for _, item := range strings.Split(body[:len(body)-1], ";") {
		k, v, ok := strings.Cut(item, ":")
		if !ok {
			return nil, fmt.Errorf("item %q has no key", item)
		}
		switch k {
		case "SKI", "ID", "BRAND", "TYPE", "MODEL", "SERIAL", "CAT":
		default:
			return nil, fmt.Errorf("unknown key %q", k)
		}
		if _, dup := out[k]; dup {
			return nil, fmt.Errorf("duplicate key %q", k)
		}
		out[k] = v
	}
	return out, nil
}

func catsString(c []uint) string {
	var parts []string
	for _, x := range c {
		parts = append(parts, fmt.Sprintf("%d", x))
	}
	return strings.Join(parts, ",")
}

func checkC16(col *vc.Collector, id string, c c16Config, r *vc.Rand) {
	const prop = "C16"
	col.Eval(prop, 1)
	var feats []string
	for _, p := range []struct{ n, v string }{{"ski", c.Ski}, {"id", c.ID}, {"brand", c.Brand}, {"model", c.Model}, {"type", c.Type}, {"serial", c.Serial}} {
		feats = append(feats, fieldClass(p.n, p.v)...)
	}
	if len(c.Cats) == 0 {
		feats = append(feats, "cat:none")
	}
	sort.Strings(feats)
	// class: the kinds of features present, without the field name (keeps the class space finite and meaningful)
	kinds := map[string]bool{}
	for _, f := range feats {
		kinds[f] = true
	}
	var ks []string
	for k := range kinds {
		ks = append(ks, k)
	}
	sort.Strings(ks)
	col.Class(prop, strings.Join(ks, "+"))

	cats := make([]api.DeviceCategoryType, 0, len(c.Cats))
	for _, x := range c.Cats {
		cats = append(cats, api.DeviceCategoryType(x))
	}
	var catsArg []api.DeviceCategoryType
	if len(cats) > 0 || r.Bool() {
		catsArg = cats
	}

	wit := map[string]any{"config": c}
	viol := func(kind, cls, detail string) {
		col.Violation(prop, kind+":"+cls, detail, id, wit)
	}
	anyHas := func(sub string, vals ...string) bool {
		for _, v := range vals {
			if strings.Contains(v, sub) {
				return true
			}
		}
		return false
	}

	prov := &capProvider{}
	a := mdns.NewMDNS(c.Ski, c.Brand, c.Model, c.Type, c.Serial, catsArg, c.ID, c.Name, c.Port, nil, mdns.MdnsProviderSelectionAll)
	if err := a.VerifAttach(prov, nil); err != nil {
		viol("announce-error", "other", err.Error())
		return
	}
	// a history of auto-accept changes, unannouncements, announcements and failing announcements: every
	// announcement has to carry the auto-accept value of that moment, a change while announced has to be
	// followed by a new announcement
	cur, announced := false, true
	regOf := func(txt []string) string {
		for _, t := range txt {
			if strings.HasPrefix(t, "register=") {
				return t[len("register="):]
			}
		}
		return "(missing)"
	}
	var hist []string
	checkLast := func(op string) {
		if n := len(prov.txts); n > 0 && regOf(prov.txts[n-1]) != fmt.Sprintf("%v", cur) {
			wit["history"] = hist
			viol("txt-register-stale", "other", fmt.Sprintf("after %v the announced TXT says register=%s, auto accept is %v", hist, regOf(prov.txts[n-1]), cur))
		}
	}
	nops := r.Range(0, 6)
	for k := 0; k < nops; k++ {
		before := len(prov.txts)
		switch r.Intn(4) {
		case 0:
			cur = r.Bool()
			hist = append(hist, fmt.Sprintf("auto(%v)", cur))
			a.SetAutoAccept(cur)
			if announced && len(prov.txts) == before {
				viol("no-reannounce-on-autoaccept", "other", fmt.Sprintf("history %v", hist))
			}
			if len(prov.txts) > before {
				checkLast("auto")
			}
		case 1:
			hist = append(hist, "unannounce")
			a.UnannounceMdnsEntry()
			announced = false
		case 2:
			hist = append(hist, "announce")
			if err := a.AnnounceMdnsEntry(); err == nil {
				announced = true
				checkLast("announce")
			}
		case 3:
			hist = append(hist, "announce-fails")
			prov.failNext = true
			_ = a.AnnounceMdnsEntry()
			prov.failNext = false
		}
	}
	col.Class(prop, fmt.Sprintf("history:%d-ops:announced=%v", nops, announced))
	cur = c.Auto
	hist = append(hist, fmt.Sprintf("auto(%v)", cur))
	a.SetAutoAccept(c.Auto)
	if !announced {
		hist = append(hist, "announce")
		_ = a.AnnounceMdnsEntry()
	}
	checkLast("final")
	if len(prov.txts) < 2 {
		viol("no-reannounce-on-autoaccept", "other", fmt.Sprintf("%d announcements after %v", len(prov.txts), hist))
		return
	}
	txt := prov.txts[len(prov.txts)-1]
	wit["txt"] = txt
	if prov.ports[len(prov.ports)-1] != c.Port || prov.names[len(prov.names)-1] != c.Name {
		viol("announce-name-port", "other", "service name or port differ")
	}
	kv, dup := splitTxt(txt)
	if len(dup) > 0 {
		viol("txt-duplicate-key", "other", strings.Join(dup, ","))
	}

	// announced descriptive values: <= 32 bytes, a prefix of the input, valid UTF-8 if the input was
	ann := map[string]string{}
	for _, p := range []struct{ key, in string }{{"brand", c.Brand}, {"model", c.Model}, {"type", c.Type}, {"serial", c.Serial}} {
		v, ok := kv[p.key]
		if !ok {
			if p.key == "serial" && p.in == "" {
				ann[p.key] = ""
				continue
			}
			viol("txt-missing:"+p.key, "other", "key not announced")
			continue
		}
		ann[p.key] = v
		cls := "other"
		if len(p.in) > 32 && !utf8.RuneStart(p.in[32]) {
			cls = "rune-at-boundary"
		}
		if len(v) > 32 {
			viol("txt-too-long", cls, fmt.Sprintf("%s=%q is %d bytes", p.key, v, len(v)))
		}
		if !strings.HasPrefix(p.in, v) {
			viol("txt-not-prefix", cls, fmt.Sprintf("%s=%q input %q", p.key, v, p.in))
		}
		if len(p.in) <= 32 && v != p.in {
			viol("txt-altered", cls, fmt.Sprintf("%s=%q input %q", p.key, v, p.in))
		}
		if len(p.in) > 32 && len(v) < 29 {
			viol("txt-overtruncated", cls, fmt.Sprintf("%s=%q input %q", p.key, v, p.in))
		}
		if utf8.ValidString(p.in) && !utf8.ValidString(v) {
			viol("txt-invalid-utf8", cls, fmt.Sprintf("%s=%q input %q", p.key, v, p.in))
		}
	}
	if kv["ski"] != c.Ski || kv["id"] != c.ID || kv["register"] != fmt.Sprintf("%v", c.Auto) || kv["txtvers"] != "1" || kv["path"] != "/ship/" {
		viol("txt-mandatory", "other", fmt.Sprintf("mandatory keys wrong: %v", kv))
	}

	// the quantifier is over UTF-8 strings: configurations with invalid UTF-8 are only checked for the
	// truncation rule above ("valid when the input was") and for not crashing
	if !utf8.ValidString(c.Ski + c.ID + c.Brand + c.Model + c.Type + c.Serial) {
		col.Count(prop, "invalid-utf8-config(truncation+crash only)", 1)
		_ = a.QRCodeText()
		return
	}

	// read back on a second manager through the library's parser and entry processing
	if c.Ski != "browser-ski" {
		b := mdns.NewMDNS("browser-ski", "b", "m", "t", "s", nil, "bid", "bname", 4711, nil, mdns.MdnsProviderSelectionAll)
		_ = b.VerifAttach(&capProvider{}, nil)
		elements := mdns.VerifParseTxt(txt)
		b.VerifResolveCB()(elements, c.Name, "host.local.", []net.IP{net.IPv4(192, 168, 1, 10)}, c.Port, false)
		entries := b.VerifEntries()
		eqCls := "other"
		if anyHas("=", c.Ski, c.ID, ann["brand"], ann["model"], ann["type"], ann["serial"]) {
			eqCls = "value-has-equals"
		} else if !utf8.ValidString(ann["brand"] + ann["model"] + ann["type"] + ann["serial"]) {
			eqCls = "rune-at-boundary" // follows from an announced value cut inside a rune
		}
		e, ok := entries[c.Ski]
		if !ok || len(entries) != 1 {
			viol("entry-missing", eqCls, fmt.Sprintf("entries: %d", len(entries)))
		} else {
			wit["entry"] = e
			cmp := func(name, got, want string) {
				if got != want {
					viol("entry-field:"+name, eqCls, fmt.Sprintf("got %q want %q", got, want))
				}
			}
			cmp("ski", e.Ski, c.Ski)
			cmp("id", e.Identifier, c.ID)
			cmp("path", e.Path, "/ship/")
			cmp("brand", e.Brand, ann["brand"])
			cmp("model", e.Model, ann["model"])
			cmp("type", e.Type, ann["type"])
			cmp("serial", e.Serial, ann["serial"])
			if e.Register != c.Auto {
				viol("entry-field:register", eqCls, fmt.Sprintf("got %v want %v", e.Register, c.Auto))
			}
			var got []uint
			for _, x := range e.Categories {
				got = append(got, uint(x))
			}
			if catsString(got) != catsString(c.Cats) {
				viol("entry-field:categories", eqCls, fmt.Sprintf("got %v want %v", got, c.Cats))
			}
			if e.Port != c.Port {
				viol("entry-field:port", eqCls, fmt.Sprintf("got %v want %v", e.Port, c.Port))
			}
		}
	}

	// QR code text
	qr := a.QRCodeText()
	wit["qr"] = qr
	qrCls := "other"
	if anyHas(";", c.Ski, c.ID) {
		qrCls = "semicolon-in-ski-or-id"
	}
	fields, err := parseQR(qr)
	if err != nil {
		viol("qr-unparsable", qrCls, err.Error())
		return
	}
	strip := func(s string) string { return strings.ReplaceAll(s, ";", "") }
	want := map[string]string{"SKI": strip(c.Ski), "ID": strip(c.ID), "BRAND": strip(ann["brand"]), "TYPE": strip(ann["type"]),
		"MODEL": strip(ann["model"]), "SERIAL": strip(ann["serial"]), "CAT": catsString(c.Cats)}
	for k, w := range want {
		if fields[k] != w { // missing == empty
			viol("qr-field:"+k, qrCls, fmt.Sprintf("got %q want %q", fields[k], w))
		}
	}
	if _, ok := fields["SKI"]; !ok {
		viol("qr-field-absent:SKI", qrCls, qr)
	}
	if _, ok := fields["ID"]; !ok {
		viol("qr-field-absent:ID", qrCls, qr)
	}
	if col.WantSample(prop) {
		col.Sample(prop, map[string]any{"config": c, "txt": txt, "qr": qr})
	}
}

func runC16(run *vc.Run, col *vc.Collector) {
	n := run.N(50000, 2000000)
	for i := 0; i < n; i++ {
		if !run.Mine(i) {
			continue
		}
		r := vc.NewRand(run.Seed, "pure-c16", uint64(i))
		c := genC16(r)
		checkC16(col, fmt.Sprintf("pure-c16/%d", i), c, r.Fork("x"))
		if i%20000 == 0 {
			col.Write(false)
		}
	}
}
