package pure

import (
	"fmt"
	"strings"

	"github.com/enbility/ship-go/ship"
	vc "verifcommon"
)

// C07: EEBUS-JSON transform is a lossless round trip in the SHIP-mandated shape.
//
// Oracles on every generated document d (top level an object):
//  (1) round trip: Parse(JsonFromEEBUSJson(JsonIntoEEBUSJson(d))) == d  (order, number text, decoded strings)
//  (2) shape:      Parse("[" + JsonIntoEEBUSJson(d) + "]") == Shape(d)

var corpus = []string{
	`{"datagram":{"header":{"specificationVersion":"1.2.0","addressSource":{"device":"d:_i:3210_EVSE","entity":[1,1],"feature":6},"addressDestination":{"device":"d:_i:3210_HEMS","entity":[1],"feature":1},"msgCounter":194,"msgCounterReference":4890,"cmdClassifier":"reply"},"payload":{"cmd":[{"deviceClassificationManufacturerData":{"deviceName":"","deviceCode":"","brandName":"","powerSource":"mains3Phase"}}]}}}`,
	`{"datagram":{"header":{"specificationVersion":"1.2.0","addressSource":{"device":"Demo-EVSE-234567890","entity":[0],"feature":0},"addressDestination":{"device":"Demo-HEMS-123456789","entity":[0],"feature":0},"msgCounter":1,"cmdClassifier":"read"},"payload":{"cmd":[{"nodeManagementDetailedDiscoveryData":{}}]}}}`,
	`{"datagram":{"header":{"specificationVersion":"1.3.0","msgCounter":5,"cmdClassifier":"notify"},"payload":{"cmd":[{"function":"measurementListData","filter":[{"cmdControl":{"partial":{}}}],"measurementListData":{"measurementData":[{"measurementId":0,"valueType":"value","value":{"number":1500,"scale":-2}},{"measurementId":1,"value":{"number":230.10,"scale":0}}]}}]}}}`,
}

type c07Witness struct {
	Doc      string   `json:"doc"`
	Wire     string   `json:"wire"`
	Back     string   `json:"back"`
	Features []string `json:"features"`
	Diff     string   `json:"diff"`
}

// mutate changes one random place of a parsed corpus document
func mutate(r *vc.Rand, n *Node, o GenOpts) {
	var nodes []*Node
	var walk func(n *Node)
	walk = func(n *Node) {
		nodes = append(nodes, n)
		for _, m := range n.Mem {
			walk(m.V)
		}
		for _, e := range n.Elems {
			walk(e)
		}
	}
	walk(n)
	for k := 0; k < r.Range(1, 3); k++ {
		t := vc.Pick(r, nodes[1:])
		nv := genValue(r, o, 4)
		*t = *nv
	}
}

func checkDoc(col *vc.Collector, id string, d *Node, r *vc.Rand) {
	const prop = "C07"
	text := Text(d, r)
	feats := Features(d)
	col.Eval(prop, 1)
	col.Class(prop, strings.Join(feats, "+"))
	for _, f := range feats {
		col.Count(prop, "feature:"+f, 1)
	}
	has := func(f string) bool {
		for _, x := range feats {
			if x == f {
				return true
			}
		}
		return false
	}
	wit := c07Witness{Doc: text, Features: feats}
	report := func(kind, diff string) {
		cls := "other"
		switch {
		case has("empty-top-object"):
			cls = "empty-top-object"
		case has("string-bracket-seq") || has("name-bracket-seq"):
			cls = "string-bracket-seq"
		case has("empty-array"):
			cls = "empty-array"
		}
		wit.Diff = diff
		col.Violation(prop, fmt.Sprintf("%s:input-class:%s", kind, cls), diff, id, wit)
	}

	wire, err := func() (w string, err error) {
		defer func() {
			if p := recover(); p != nil {
				err = fmt.Errorf("panic: %v", p)
			}
		}()
		return ship.JsonIntoEEBUSJson([]byte(text))
	}()
	if err != nil {
		report("into-error", err.Error())
		return
	}
	wit.Wire = wire

	// (2) shape
	shaped, err := Parse([]byte("[" + wire + "]"))
	if err != nil {
		report("shape-unparsable", err.Error())
	} else if ok, diff := Equal(Shape(d), shaped, false); !ok {
		report("shape", diff)
	}

	// (1) round trip
	back := ship.JsonFromEEBUSJson([]byte(wire))
	wit.Back = string(back)
	bd, err := Parse(back)
	if err != nil {
		report("roundtrip-unparsable", err.Error())
		return
	}
	if ok, diff := Equal(d, bd, false); !ok {
		// an empty array comes back as an empty object: recorded finding (wire form is ambiguous);
		// anything beyond that difference is classified on its own
		if okRelaxed, _ := Equal(d, bd, true); okRelaxed && has("empty-array") {
			wit.Diff = diff
			col.Violation(prop, "roundtrip:input-class:empty-array", diff, id, wit)
		} else {
			cls := "other"
			switch {
			case has("empty-top-object"):
				cls = "empty-top-object"
			case has("string-bracket-seq") || has("name-bracket-seq"):
				cls = "string-bracket-seq"
			}
			wit.Diff = diff
			col.Violation(prop, "roundtrip:input-class:"+cls, diff, id, wit)
		}
		return
	}
	if col.WantSample(prop) && len(text) < 400 {
		col.Sample(prop, map[string]any{"doc": text, "wire": wire, "features": feats})
	}
}

func runC07(run *vc.Run, col *vc.Collector) {
	n := run.N(200000, 5000000)
	for i := 0; i < n; i++ {
		if !run.Mine(i) {
			continue
		}
		r := vc.NewRand(run.Seed, "pure-c07", uint64(i))
		o := GenOpts{}
		switch i % 4 {
		case 1:
			o.NoEmptyArray = true
		case 2:
			o.NoEmptyArray, o.NoBracketSeq = true, true
		}
		var d *Node
		if i%10 == 9 {
			d, _ = Parse([]byte(vc.Pick(r, corpus)))
			o.MaxDepth, o.MaxWidth = 6, 3
			mutate(r, d, o)
		} else {
			d = GenDoc(r, o)
		}
		checkDoc(col, fmt.Sprintf("pure-c07/%d", i), d, r.Fork("text"))
		if i%50000 == 0 {
			col.Write(false)
		}
	}
}
