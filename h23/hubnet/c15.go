package hubnet

import (
	"fmt"
	"strings"
	"time"

	vc "verifcommon"
)

// C15: hub operations are invariant under SKI formatting (metamorphic check). The same script runs on
// two fresh, identically configured hub pairs: once with canonical SKIs, once with every SKI argument
// re-spelled. After each step both runs settle and the stable observations must agree.

type c15Op struct {
	Kind  string `json:"kind"`  // register, unregister, disconnect, cancel, detail, lookup, peer-register, peer-unregister
	Spell int    `json:"spell"` // spelling used in the re-spelled run
}

type C15Scn struct {
	ID  string  `json:"id"`
	Ops []c15Op `json:"ops"`
}

func respell(ski string, how int) string {
	switch how {
	case 1:
		return strings.ToUpper(ski)
	case 2: // spaces between bytes
		var parts []string
		for i := 0; i+2 <= len(ski); i += 2 {
			parts = append(parts, ski[i:i+2])
		}
		return strings.Join(parts, " ")
	case 3: // dashes, upper case
		var parts []string
		for i := 0; i+4 <= len(ski); i += 4 {
			parts = append(parts, strings.ToUpper(ski[i:i+4]))
		}
		return strings.Join(parts, "-")
	case 4: // mixed case
		b := []byte(ski)
		for i := range b {
			if i%3 == 0 {
				b[i] = strings.ToUpper(string(b[i]))[0]
			}
		}
		return string(b)
	}
	return ski
}

// c15FirstOps: the operation applied first in the prepared hub state; together with the three states this grid
// is walked systematically (scenario index), the spelling and everything after the first operation is seeded
var c15FirstOps = []string{"register", "unregister", "disconnect", "cancel", "detail", "lookup", "lookup-fresh", "peer-register"}

func genC15(r *vc.Rand, idx int) *C15Scn {
	sc := &C15Scn{}
	// bring the hub into one of the states first
	switch idx % 3 {
	case 0: // completed
		sc.Ops = append(sc.Ops, c15Op{Kind: "peer-register"}, c15Op{Kind: "register", Spell: r.Intn(5)})
	case 1: // pending (peer wants to pair, we did nothing yet)
		sc.Ops = append(sc.Ops, c15Op{Kind: "peer-register"})
	case 2: // no connection
	}
	sc.Ops = append(sc.Ops, c15Op{Kind: c15FirstOps[(idx/3)%len(c15FirstOps)], Spell: 1 + (idx/(3*len(c15FirstOps))+idx)%4})
	n := r.Range(0, 5)
	for i := 0; i < n; i++ {
		sc.Ops = append(sc.Ops, c15Op{Kind: vc.Pick(r, []string{"register", "register", "unregister", "unregister", "disconnect", "disconnect", "cancel", "cancel", "detail", "lookup", "lookup-fresh", "peer-register"}), Spell: r.Range(1, 4)})
	}
	return sc
}

// c15Obs: the effect of one operation on the hub state it was applied in. Only effects that are a
// function of (operation, state before) are compared between the two runs; reconnect dynamics
// afterwards (the peer keeps redialling) are real-time dependent and not part of the relation.
type c15Obs struct {
	Before      string `json:"before"`       // no-connection | pending | completed | other
	OldClosed   bool   `json:"old_closed"`   // the connection registered before the call got closed within 3 s
	Trusted     bool   `json:"trusted"`      // ServiceForSKI(canonical).Trusted() after the call
	DetailAgree bool   `json:"detail_agree"` // PairingDetailForSki(arg) == PairingDetailForSki(canonical) at the same instant
	LookupOK    bool   `json:"lookup_ok"`    // ServiceForSKI(arg) is the canonical service object and carries the canonical SKI
	OtherKeys   int    `json:"other_keys"`   // registry / service entries under a non-canonical key
	Approved    bool   `json:"approved"`     // register in state pending: the waiting connection completed within 6 s
	Dialled     bool   `json:"dialled"`      // register without connection: an outbound dial followed within 4 s
	FreshOK     bool   `json:"fresh_ok"`     // a never seen SKI: lookup by the re-spelled and by the canonical form give one service object that keeps its settings
}

// key: the compared effects. Dialled is recorded but not compared: whether the hub dials after a
// register without connection depends on whether the peer's own redial arrived first (real time).
func (o c15Obs) key() string {
	o.Dialled = false
	return fmt.Sprintf("%+v", o)
}

func runC15(sc *C15Scn, spelled bool) (out []c15Obs, err string) {
	nw := NewNet()
	defer nw.Close()
	a, e := nw.AddNode("A", nil)
	if e != nil {
		return nil, e.Error()
	}
	b, e := nw.AddNode("B", nil)
	if e != nil {
		return nil, e.Error()
	}
	if e := nw.Link(a, b); e != nil {
		return nil, e.Error()
	}
	a.App.AllowWait.Store(true)
	b.App.AllowWait.Store(true)
	a.Start()
	b.Start()
	time.Sleep(80 * time.Millisecond)
	stateOf := func() (string, bool) {
		reg := a.Hub.VerifRegistry()
		e, ok := reg[b.SKI]
		switch {
		case !ok:
			return "no-connection", true
		case e.Closed:
			return "other", false
		case e.State == 38:
			return "completed", true
		case e.State == 11:
			return "pending", true
		}
		return "other", false // handshake in flight: not a stable state
	}
	freshN := 0
	for _, op := range sc.Ops {
		arg := b.SKI
		if spelled {
			arg = respell(b.SKI, op.Spell)
		}
		// the operation is applied in a stable hub state (bounded wait; otherwise recorded as "other")
		var before string
		WaitFor(8*time.Second, func() bool {
			s, stable := stateOf()
			before = s
			if !stable {
				return false
			}
			time.Sleep(300 * time.Millisecond)
			s2, stable2 := stateOf()
			return stable2 && s2 == s
		})
		o := c15Obs{Before: before, DetailAgree: true, LookupOK: true, FreshOK: true}
		old, hadOld := a.Hub.VerifRegistry()[b.SKI]
		accepts0 := nw.Proxy(a, b).Accepts.Load()
		switch op.Kind {
		case "lookup-fresh":
			freshN++
			fresh := fmt.Sprintf("%038x%02x", 0xabcdef, freshN)
			farg := fresh
			if spelled {
				farg = respell(fresh, op.Spell)
			}
			s1 := a.Hub.ServiceForSKI(farg)
			s1.SetIPv4("10.1.2.3")
			s2 := a.Hub.ServiceForSKI(fresh)
			o.FreshOK = s1 == s2 && s2.IPv4() == "10.1.2.3" && s1.SKI() == fresh && a.Hub.PairingDetailForSki(farg).State() == a.Hub.PairingDetailForSki(fresh).State()
		case "register":
			a.Register(arg)
			switch before {
			case "pending":
				o.Approved = WaitFor(6*time.Second, func() bool {
					e, ok := a.Hub.VerifRegistry()[b.SKI]
					return ok && e.State == 38
				})
			case "no-connection":
				o.Dialled = WaitFor(4*time.Second, func() bool { return nw.Proxy(a, b).Accepts.Load() > accepts0 })
			}
		case "unregister":
			a.Unregister(arg)
		case "disconnect":
			a.Disconnect(arg)
		case "cancel":
			a.Cancel(arg)
		case "detail":
			o.DetailAgree = a.PairingState(arg) == a.PairingState(b.SKI)
		case "lookup":
			sv := a.Hub.ServiceForSKI(arg)
			o.LookupOK = sv == a.Hub.ServiceForSKI(b.SKI) && sv.SKI() == b.SKI
		case "peer-register":
			b.Register(a.SKI)
		case "peer-unregister":
			b.Unregister(a.SKI)
		}
		o.Trusted = a.Hub.ServiceForSKI(b.SKI).Trusted()
		if hadOld && (op.Kind == "unregister" || op.Kind == "disconnect" || op.Kind == "cancel") {
			o.OldClosed = WaitFor(3*time.Second, func() bool {
				closed, _ := old.Connection.DataHandler().IsDataConnectionClosed()
				return closed
			})
		}
		for k := range a.Hub.VerifRegistry() {
			if k != b.SKI {
				o.OtherKeys++
			}
		}
		out = append(out, o)
	}
	return out, ""
}

// twinRun executes the script on two fresh hub pairs (canonical / re-spelled) and returns the first
// step whose effects differ (-1: none), or comparable=false if the runs left the common state first.
func twinRun(sc *C15Scn) (canon, spelledRes []c15Obs, step int, setupErr bool) {
	type runRes struct {
		o   []c15Obs
		err string
	}
	ch := make(chan runRes, 1)
	go func() { o, e := runC15(sc, false); ch <- runRes{o, e} }()
	sp, spErr := runC15(sc, true)
	cn := <-ch
	if cn.err != "" || spErr != "" {
		return nil, nil, -1, true
	}
	for i := range sc.Ops {
		co, so := cn.o[i], sp[i]
		if co.Before != so.Before || co.Before == "other" {
			return cn.o, sp, -1, false
		}
		if co.key() != so.key() {
			return cn.o, sp, i, false
		}
	}
	return cn.o, sp, -1, false
}

func evalC15(col *vc.Collector, sc *C15Scn) {
	const prop = "C15"
	col.Eval(prop, 1)
	canon, spelledRes, step, setupErr := twinRun(sc)
	if setupErr {
		col.Inconclusive(prop, "setup")
		return
	}
	for i, op := range sc.Ops {
		co, so := canon[i], spelledRes[i]
		if co.Before != so.Before || co.Before == "other" {
			// the two real-time runs are not in the same hub state here: nothing to compare from this step on
			col.Count(prop, "steps-not-comparable", len(sc.Ops)-i)
			break
		}
		col.Class(prop, fmt.Sprintf("%s:in=%s:spell=%d", op.Kind, co.Before, op.Spell))
		col.Count(prop, "steps-compared", 1)
		if i == step {
			break
		}
	}
	if step >= 0 {
		// a formatting defect is deterministic, a timing difference between two real-time runs is
		// not: the divergence has to show again at the same step in two further twin runs
		again := 0
		for k := 0; k < 2; k++ {
			_, _, st2, e2 := twinRun(sc)
			if !e2 && st2 == step {
				again++
			}
		}
		op := sc.Ops[step]
		if again == 2 {
			wit := map[string]any{"scenario": sc, "step": step, "canonical": canon, "respelled": spelledRes}
			col.Violation(prop, fmt.Sprintf("divergence:%s:in-%s", op.Kind, canon[step].Before),
				fmt.Sprintf("step %d (%s with spelling %d in state %s), reproduced in 3 of 3 twin runs: canonical %+v / re-spelled %+v", step, op.Kind, op.Spell, canon[step].Before, canon[step], spelledRes[step]), sc.ID, wit)
		} else {
			col.Inconclusive(prop, "divergence-not-reproduced(timing)")
		}
		return
	}
	if col.WantSample(prop) {
		col.Sample(prop, map[string]any{"ops": sc.Ops, "effects": canon})
	}
}
