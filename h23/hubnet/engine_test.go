package hubnet

import (
	"fmt"
	"os"
	"strconv"
	"sync"
	"testing"
	"time"

	"github.com/enbility/ship-go/hub"
	vc "verifcommon"
)

const engine = "hubnet"

func TestEngine(t *testing.T) {
	run_ := vc.LoadRun(engine)
	col := vc.NewCollector(run_)
	start, _ := strconv.Atoi(os.Getenv("VERIF_START"))
	_ = start
	InitPorts(run_.Shard)
	hub.VerifSetDialBackoff([][2]int{{0, 1}, {1, 2}, {2, 3}})
	if run_.Prop == "C10" || run_.Prop == "C01" {
		// every delayed dial waits at least one second: distinguishes a dial that was in flight when
		// unregister/shutdown returned (milliseconds) from a delayed dial that ignored it (DESIGN.md C10)
		hub.VerifSetDialBackoff([][2]int{{1, 2}, {2, 3}, {3, 4}})
	}
	par := 4
	if v, err := strconv.Atoi(os.Getenv("VERIF_PAR")); err == nil && v > 0 {
		par = v
	}
	want := func(p ...string) bool {
		if run_.Prop == "" || run_.Prop == "C20" {
			return true
		}
		for _, x := range p {
			if x == run_.Prop {
				return true
			}
		}
		return false
	}
	sem := make(chan struct{}, par)
	var wg sync.WaitGroup
	spawn := func(f func()) {
		wg.Add(1)
		sem <- struct{}{}
		go func() {
			defer wg.Done()
			defer func() { <-sem }()
			f()
		}()
	}

	if want("C05", "C11", "C18", "C06") {
		n := run_.N(48, 1500)
		for i := 0; i < n; i++ {
			if !run_.Mine(i) {
				continue
			}
			i := i
			spawn(func() {
				r := vc.NewRand(run_.Seed, engine+"-pair", uint64(i))
				sc := genPair(r)
				sc.ID = fmt.Sprintf("%s/%d/pair", engine, i)
				vc.Scn(sc.ID)
				res := runPair(sc)
				evalPair(col, sc, res)
			})
		}
	}
	if run_.Prop == "C10" || run_.Prop == "C01" {
		n := run_.N(40, 1200)
		for i := 0; i < n; i++ {
			if !run_.Mine(i) {
				continue
			}
			i := i
			spawn(func() {
				r := vc.NewRand(run_.Seed, engine+"-c10", uint64(i))
				sc := genC10(r)
				sc.ID = fmt.Sprintf("%s/%d/c10", engine, i)
				vc.Scn(sc.ID)
				evalC10(col, sc, runC10(sc))
			})
		}
	}
	if run_.Prop == "C20" {
		n := run_.N(24, 400)
		for i := 0; i < n; i++ {
			if !run_.Mine(i) {
				continue
			}
			i := i
			spawn(func() {
				vc.Scn(fmt.Sprintf("%s/%d/stress", engine, i))
				runStress(run_.Seed, i, col)
			})
		}
	}
	if want("C15") {
		n := run_.N(24, 600)
		for i := 0; i < n; i++ {
			if !run_.Mine(i) {
				continue
			}
			i := i
			spawn(func() {
				r := vc.NewRand(run_.Seed, engine+"-c15", uint64(i))
				sc := genC15(r, i)
				sc.ID = fmt.Sprintf("%s/%d/c15", engine, i)
				vc.Scn(sc.ID)
				evalC15(col, sc)
			})
		}
	}
	if want("C18") {
		n := run_.N(48, 1200)
		for i := 0; i < n; i++ {
			if !run_.Mine(i) {
				continue
			}
			i := i
			spawn(func() {
				r := vc.NewRand(run_.Seed, engine+"-deny", uint64(i))
				sc := genDeny(r)
				sc.ID = fmt.Sprintf("%s/%d/deny", engine, i)
				vc.Scn(sc.ID)
				evalDeny(col, sc, runDeny(sc))
			})
		}
	}
	if want("C09") {
		n := run_.N(60, 1500)
		for i := 0; i < n; i++ {
			if !run_.Mine(i) {
				continue
			}
			i := i
			spawn(func() {
				r := vc.NewRand(run_.Seed, engine+"-c09", uint64(i))
				sc := genC09(r)
				sc.ID = fmt.Sprintf("%s/%d/c09", engine, i)
				vc.Scn(sc.ID)
				evalC09(col, sc, runC09(sc))
			})
		}
	}
	if want("C02") {
		n := run_.N(160, 3000)
		for i := 0; i < n; i++ {
			if !run_.Mine(i) {
				continue
			}
			i := i
			spawn(func() {
				r := vc.NewRand(run_.Seed, engine+"-c02", uint64(i))
				c := genC02(r, i)
				c.ID = fmt.Sprintf("%s/%d/c02/%s/%s", engine, i, c.Dir, c.CertKind)
				vc.Scn(c.ID)
				runC02(c, col)
			})
		}
	}
	wg.Wait()
	_ = time.Second
	col.Write(true)
}

func evalPair(col *vc.Collector, sc *PairScn, res pairResult) {
	for _, p := range []string{"C05", "C11", "C18"} {
		col.Eval(p, 1)
	}
	wit := map[string]any{"scenario": sc, "timeline": res.Timeline, "log": Compact(res.Evs, 250)}
	var ds []string
	for _, d := range sc.Disturbs {
		ds = append(ds, d.Kind)
	}
	col.Class("C05", fmt.Sprintf("reg=%v:simul=%v:onesided=%v:disturbs=%v:one-sided-phase=%s:early-cut=%v", sc.RegBefore, sc.Simultaneous, sc.OneSided, ds, sc.OneSidedPhase, sc.EarlyCut >= 0))
	if len(res.Reason) > 5 && res.Reason[:5] == "setup" {
		col.Inconclusive("C05", "setup")
		return
	}
	if !res.Converged {
		if res.Busy {
			col.Inconclusive("C05", "still-dialling-at-watchdog")
		} else {
			kind := res.Reason
			if i := indexByte(kind, '('); i >= 0 {
				kind = kind[:i]
			}
			col.Violation("C05", "not-converged:"+kind, res.Reason, sc.ID, wit)
		}
	} else {
		col.Count("C05", "converged", 1)
		if !res.Echo[0] || !res.Echo[1] {
			col.Violation("C05", "echo-failed-on-kept-connection", fmt.Sprintf("echo A->B->A %v, B->A->B %v", res.Echo[0], res.Echo[1]), sc.ID, wit)
		}
	}
	for _, f := range monitorAccounting(res, func(k string) { col.Class("C11", "pair:"+k) }) {
		col.Violation(f.Prop, f.Sig, f.Detail, sc.ID, wit)
	}
	for _, f := range monitorNotifications(res, func(k string) { col.Class("C18", "pair:"+k) }) {
		col.Violation(f.Prop, f.Sig, f.Detail, sc.ID, wit)
	}
	for _, p := range []string{"C05", "C11", "C18"} {
		if col.WantSample(p) {
			col.Sample(p, map[string]any{"scenario": sc, "timeline": res.Timeline})
		}
	}
}

func indexByte(s string, c byte) int {
	for i := 0; i < len(s); i++ {
		if s[i] == c {
			return i
		}
	}
	return -1
}
