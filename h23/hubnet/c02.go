package hubnet

import (
	"crypto/tls"
	"fmt"
	"net"
	"net/http"
	"strings"
	"sync"
	"time"

	"github.com/enbility/ship-go/cert"
	"github.com/gorilla/websocket"
	vc "verifcommon"
)

// C02: every connection is bound to the SKI of the presented certificate.

type c02Case struct {
	ID       string `json:"id"`
	Dir      string `json:"dir"`  // inbound | outbound
	CertKind string `json:"cert"` // none, no-ski, ski-len-N, correct, copied-from-victim, copied-from-unpaired
	SKILen   int    `json:"ski_len"`
	TLSMax   uint16 `json:"tls_max"`
	Protos   string `json:"protos"` // "", ship, other, other+ship
	Paired   bool   `json:"victim_paired"`
	KeyType  string `json:"key_type"` // p256 (default), p384, ed25519, rsa
	Chain    bool   `json:"chain"`    // the victim\'s genuine certificate is appended behind the presented leaf
	AKI      bool   `json:"aki"`      // correct certificate whose authority key identifier names the victim
}

type c02Obs struct {
	TLSFailed   bool     `json:"tls_failed"`
	UpgradeErr  string   `json:"upgrade_err"`
	Subprotocol string   `json:"subprotocol"`
	GotShip     bool     `json:"got_ship_bytes"` // a binary websocket frame (SHIP message) arrived at the adversary
	Frames      int      `json:"frames"`
	Callbacks   []string `json:"callbacks"`
}

var shipCiphers = cert.CipherSuites

func tlsName(v uint16) string {
	switch v {
	case tls.VersionTLS10:
		return "1.0"
	case tls.VersionTLS11:
		return "1.1"
	case tls.VersionTLS12:
		return "1.2"
	case tls.VersionTLS13:
		return "1.3"
	}
	return "default"
}

// adversarial inbound peer: connects to the hub with the given certificate / TLS / sub-protocol offer,
// sends the SHIP init message and reports whether any SHIP byte came back.
func inboundAttempt(port int, crt *tls.Certificate, tlsMax uint16, protos []string) (o c02Obs) {
	cfg := &tls.Config{InsecureSkipVerify: true, MaxVersion: tlsMax, MinVersion: tls.VersionTLS10} // #nosec
	if tlsMax != 0 && tlsMax < tls.VersionTLS13 {
		cfg.CipherSuites = append([]uint16{}, shipCiphers...)
	}
	if crt != nil {
		cfg.Certificates = []tls.Certificate{*crt}
	}
	d := websocket.Dialer{TLSClientConfig: cfg, HandshakeTimeout: 5 * time.Second, Subprotocols: protos}
	conn, resp, err := d.Dial(fmt.Sprintf("wss://127.0.0.1:%d/ship/", port), nil)
	if resp != nil && resp.Body != nil {
		_ = resp.Body.Close()
	}
	if err != nil {
		o.UpgradeErr = err.Error()
		if strings.Contains(err.Error(), "tls:") || strings.Contains(err.Error(), "remote error") || strings.Contains(err.Error(), "EOF") ||
			strings.Contains(err.Error(), "protocol version") || strings.Contains(err.Error(), "reset") {
			o.TLSFailed = true
		}
		return o
	}
	defer conn.Close()
	o.Subprotocol = conn.Subprotocol()
	_ = conn.WriteMessage(websocket.BinaryMessage, []byte{0, 0})
	_ = conn.SetReadDeadline(time.Now().Add(3 * time.Second))
	for {
		mt, _, err := conn.ReadMessage()
		if err != nil {
			return o
		}
		o.Frames++
		if mt == websocket.BinaryMessage {
			o.GotShip = true
			return o
		}
	}
}

// adversarial server for the outbound direction: presents the given certificate, upgrades with the
// ship sub-protocol and reports whether the hub sent any SHIP message.
type advServer struct {
	ln      net.Listener
	Port    int
	mu      sync.Mutex
	frames  int
	gotShip bool
	conns   int
	perConn []int // SHIP (binary) frames received per upgraded connection, in order of arrival
}

func newAdvServer(crt tls.Certificate) (*advServer, error) {
	s := &advServer{Port: FreePort()}
	cfg := &tls.Config{Certificates: []tls.Certificate{crt}, ClientAuth: tls.RequestClientCert, CipherSuites: shipCiphers, MinVersion: tls.VersionTLS12} // #nosec
	ln, err := tls.Listen("tcp", fmt.Sprintf("127.0.0.1:%d", s.Port), cfg)
	if err != nil {
		return nil, err
	}
	s.ln = ln
	up := websocket.Upgrader{Subprotocols: []string{"ship"}, CheckOrigin: func(*http.Request) bool { return true }}
	srv := &http.Server{Handler: http.HandlerFunc(func(w http.ResponseWriter, r *http.Request) {
		c, err := up.Upgrade(w, r, nil)
		if err != nil {
			return
		}
		defer c.Close()
		s.mu.Lock()
		s.conns++
		idx := len(s.perConn)
		s.perConn = append(s.perConn, 0)
		s.mu.Unlock()
		_ = c.SetReadDeadline(time.Now().Add(6 * time.Second))
		for {
			mt, _, err := c.ReadMessage()
			if err != nil {
				return
			}
			s.mu.Lock()
			s.frames++
			if mt == websocket.BinaryMessage {
				s.gotShip = true
				s.perConn[idx]++
			}
			s.mu.Unlock()
		}
	}), ReadHeaderTimeout: 5 * time.Second}
	go func() { _ = srv.Serve(ln) }()
	return s, nil
}

func (s *advServer) shipFramesPerConn() []int {
	s.mu.Lock()
	defer s.mu.Unlock()
	return append([]int(nil), s.perConn...)
}

func (s *advServer) obs() (int, int, bool) {
	s.mu.Lock()
	defer s.mu.Unlock()
	return s.conns, s.frames, s.gotShip
}

func genC02(r *vc.Rand, i int) *c02Case {
	c := &c02Case{Dir: "inbound", TLSMax: tls.VersionTLS13, Protos: "ship", Paired: r.Bool()}
	if i%4 == 3 {
		c.Dir = "outbound"
	}
	kinds := []string{"none", "no-ski", "ski-len", "ski-len", "correct", "correct", "copied-from-victim", "copied-from-victim", "copied-from-unpaired", "stolen-cert"}
	c.CertKind = vc.Pick(r, kinds)
	if c.CertKind == "ski-len" {
		c.SKILen = vc.Pick(r, []int{0, 1, 8, 16, 19, 21, 32, 40})
	}
	c.KeyType = vc.Pick(r, []string{"p256", "p256", "p256", "p384", "ed25519", "rsa"})
	// a chain: the peer proves possession of the leaf key only; a genuine certificate of another
	// device riding along must not lend its SKI
	if c.CertKind != "none" && c.CertKind != "correct" && r.Chance(1, 3) {
		c.Chain = true
	}
	if c.CertKind == "correct" && r.Chance(1, 3) {
		c.AKI = true
	}
	if c.Dir == "inbound" {
		switch r.Intn(6) {
		case 0:
			c.TLSMax = vc.Pick(r, []uint16{tls.VersionTLS10, tls.VersionTLS11})
		case 1:
			c.TLSMax = tls.VersionTLS12
		}
		switch r.Intn(6) {
		case 0:
			c.Protos = ""
		case 1:
			c.Protos = "other"
		case 2:
			c.Protos = "other+ship"
		}
	} else if c.CertKind == "none" {
		c.CertKind = "correct"
	}
	if c.Dir == "outbound" && r.Chance(1, 4) {
		// a server the hub legitimately connected to before (its own SKI, its own key) is announced a second
		// time under the SKI of another registered device, at the same address: TLS session resumption
		c.CertKind, c.KeyType, c.Chain, c.AKI = "second-service-same-host", "p256", false, false
	}
	return c
}

// expected: may the peer be accepted (SHIP bytes exchanged)?
func (c *c02Case) acceptable() bool {
	if c.CertKind != "correct" {
		return false
	}
	if c.Dir == "inbound" {
		if c.TLSMax < tls.VersionTLS12 {
			return false
		}
		if c.Protos != "ship" && c.Protos != "other+ship" {
			return false
		}
	}
	return true
}

func runC02(c *c02Case, col *vc.Collector) {
	const prop = "C02"
	col.Eval(prop, 1)
	nw := NewNet()
	defer nw.Close()
	a, err := nw.AddNode("A", nil)
	if err != nil {
		col.Inconclusive(prop, "setup")
		return
	}
	// the victim: another device, possibly paired at A
	victimCert, victimSKI, _ := MakeCert(CertOpts{})
	if c.Paired {
		a.Register(victimSKI)
	}
	var crt *tls.Certificate
	presentedSKI := ""
	switch c.CertKind {
	case "none":
	case "no-ski":
		x, _, err := MakeCert(CertOpts{NoSKI: true, KeyType: c.KeyType})
		if err == nil {
			crt = &x
		}
	case "ski-len":
		if c.SKILen == 0 {
			// x509 derives a key identifier itself when a CA template has none: use the non-CA form
			x, _, err := MakeCert(CertOpts{NoSKI: true, KeyType: c.KeyType})
			if err == nil {
				crt = &x
			}
			break
		}
		b := make([]byte, c.SKILen)
		for i := range b {
			b[i] = byte(i + 1)
		}
		x, s, err := MakeCert(CertOpts{SKI: b, KeyType: c.KeyType})
		if err == nil {
			crt, presentedSKI = &x, s
		}
	case "correct":
		o := CertOpts{KeyType: c.KeyType}
		if c.AKI {
			// the own SKI is genuine; only the authority key identifier points at the victim
			fmt.Sscanf(victimSKI, "%x", &o.AKI)
		}
		x, s, err := MakeCert(o)
		if err == nil {
			crt, presentedSKI = &x, s
		}
	case "stolen-cert":
		// the victim's genuine certificate (public anyway: it is sent in every TLS handshake), presented
		// by somebody who does not have the victim's key; with Chain the own certificate rides behind
		x, _, err := MakeCert(CertOpts{KeyType: "p256"})
		if err == nil {
			own := x.Certificate[0]
			x.Certificate = [][]byte{victimCert.Certificate[0]}
			x.Leaf = nil
			if c.Chain {
				x.Certificate = append(x.Certificate, own)
			}
			crt, presentedSKI = &x, victimSKI
		}
	case "copied-from-victim", "copied-from-unpaired":
		// a fresh key, but the certificate carries the victim's SKI
		var raw []byte
		fmt.Sscanf(victimSKI, "%x", &raw)
		x, s, err := MakeCert(CertOpts{SKI: raw, KeyType: c.KeyType})
		if err == nil {
			crt, presentedSKI = &x, s
		}
	}
	if c.Chain && crt != nil && c.CertKind != "stolen-cert" {
		crt.Certificate = append(crt.Certificate, victimCert.Certificate[0])
	}
	cls := fmt.Sprintf("%s:%s:len=%d:key=%s:chain=%v:aki=%v:tls=%s:protos=%s:victim-paired=%v", c.Dir, c.CertKind, c.SKILen, c.KeyType, c.Chain, c.AKI, tlsName(c.TLSMax), c.Protos, c.Paired)
	col.Class(prop, cls)
	wit := map[string]any{"case": c, "presented_ski": presentedSKI, "victim_ski": victimSKI}

	if c.Dir == "inbound" {
		a.Start()
		var protos []string
		if c.Protos != "" {
			protos = strings.Split(c.Protos, "+")
		}
		o := inboundAttempt(a.Port, crt, c.TLSMax, protos)
		time.Sleep(50 * time.Millisecond)
		for _, e := range nw.L.Events() {
			if e.Who == "A" && e.Ski != "" && (e.Kind == "connected" || e.Kind == "setup" || e.Kind == "pairing" || e.Kind == "shipid" || e.Kind == "disconnected") {
				o.Callbacks = append(o.Callbacks, e.Kind+":"+short(e.Ski))
			}
		}
		wit["observed"] = o
		if !c.acceptable() {
			if !o.GotShip {
				how := "closed-after-upgrade"
				if o.TLSFailed {
					how = "tls-handshake-failed"
				} else if o.UpgradeErr != "" {
					how = "upgrade-refused"
				}
				col.Count(prop, "refused:"+reasonClass(c)+":"+how, 1)
			}
			if o.GotShip {
				col.Violation(prop, "inbound-accepted:"+c.CertKind+":"+reasonClass(c), "the adversarial client received a SHIP message although it must be refused before any SHIP processing", c.ID, wit)
			}
			for _, cb := range o.Callbacks {
				if !(c.Paired && strings.HasPrefix(cb, "pairing:") && false) {
					col.Violation(prop, "inbound-callback:"+c.CertKind+":"+reasonClass(c), "application callback naming a SKI for a peer that must be refused: "+cb, c.ID, wit)
					break
				}
			}
		} else {
			// an accepted peer is attributed to the SKI of the key it holds, to nothing else
			for _, cb := range o.Callbacks {
				if !strings.HasSuffix(cb, ":"+short(presentedSKI)) {
					col.Violation(prop, "inbound-attributed-to-other-ski", fmt.Sprintf("a peer holding the key of SKI %s caused the application callback %s", short(presentedSKI), cb), c.ID, wit)
					break
				}
			}
			if o.GotShip {
				col.Count(prop, "legitimate-peer-accepted", 1)
				if len(o.Callbacks) > 0 {
					col.Count(prop, "accepted-peer-callbacks-name-its-own-ski", 1)
				}
			} else if c.KeyType != "p256" {
				col.Count(prop, "correct-ski-with-"+c.KeyType+"-key-not-accepted(not mandated)", 1)
			} else {
				col.Violation(prop, "inbound-legitimate-refused", fmt.Sprintf("a client with a correct certificate, TLS %s and the ship sub-protocol got no SHIP reply: %+v", tlsName(c.TLSMax), o), c.ID, wit)
			}
		}
		return
	}

	if c.CertKind == "second-service-same-host" {
		x, ownSKI, err := MakeCert(CertOpts{})
		if err != nil {
			col.Inconclusive(prop, "setup")
			return
		}
		srv, err := newAdvServer(x)
		if err != nil {
			col.Inconclusive(prop, "setup")
			return
		}
		defer srv.ln.Close()
		a.Start()
		a.Register(ownSKI)
		cb := a.Mgr.VerifResolveCB()
		cb(map[string]string{"txtvers": "1", "id": "ADV", "path": "/ship/", "ski": ownSKI, "register": "false"}, "adv", "", []net.IP{net.IPv4(127, 0, 0, 1)}, srv.Port, false)
		if !WaitFor(6*time.Second, func() bool { f := srv.shipFramesPerConn(); return len(f) > 0 && f[0] > 0 }) {
			col.Count(prop, "outbound:legitimate-first-connection-not-established", 1)
			return
		}
		col.Count(prop, "legitimate-peer-accepted", 1)
		// the same server is now announced as the victim, which A's user has registered as well
		a.Register(victimSKI)
		cb(map[string]string{"txtvers": "1", "id": "VICTIM", "path": "/ship/", "ski": victimSKI, "register": "false"}, "victim", "", []net.IP{net.IPv4(127, 0, 0, 1)}, srv.Port, false)
		WaitFor(5*time.Second, func() bool { return len(srv.shipFramesPerConn()) > 1 })
		time.Sleep(400 * time.Millisecond)
		per := srv.shipFramesPerConn()
		wit["observed"] = map[string]any{"ship_frames_per_connection": per, "own_ski": ownSKI}
		col.Class(prop, fmt.Sprintf("outbound:second-service-same-host:connections=%d", min(len(per), 4)))
		for i := 1; i < len(per); i++ {
			if per[i] > 0 {
				col.Violation(prop, "outbound-accepted:second-service-same-host", fmt.Sprintf("the hub dialled SKI %s at a server that holds the key of SKI %s (an earlier, legitimate connection went to the same address) and sent %d SHIP messages on that connection", short(victimSKI), short(ownSKI), per[i]), c.ID, wit)
				break
			}
		}
		if len(per) > 1 {
			col.Count(prop, "refused:outbound:second-service-same-host", 1)
		}
		return
	}

	// outbound: A registered a SKI and is told (mDNS) that it lives at the adversarial server
	srvCert := *crt
	dialled := victimSKI
	if c.CertKind == "correct" {
		dialled = presentedSKI // a legitimate server: presents the SKI of its own key, which is the dialled one
	}
	srv, err := newAdvServer(srvCert)
	if err != nil {
		col.Inconclusive(prop, "setup")
		return
	}
	defer srv.ln.Close()
	a.Start()
	a.Register(dialled)
	txt := map[string]string{"txtvers": "1", "id": "ADV", "path": "/ship/", "ski": dialled, "register": "false"}
	a.Mgr.VerifResolveCB()(txt, "adv", "", []net.IP{net.IPv4(127, 0, 0, 1)}, srv.Port, false)
	WaitFor(6*time.Second, func() bool { n, _, _ := srv.obs(); return n > 0 })
	time.Sleep(300 * time.Millisecond)
	conns, frames, got := srv.obs()
	wit["observed"] = map[string]any{"tcp_upgrades": conns, "frames": frames, "got_ship": got}
	if conns == 0 {
		col.Count(prop, "outbound:no-connection-reached-the-server", 1)
	}
	if c.acceptable() {
		if got {
			col.Count(prop, "legitimate-peer-accepted", 1)
		} else if conns > 0 && c.KeyType == "p256" {
			col.Violation(prop, "outbound-legitimate-refused", "the server presented the SKI of its own key, equal to the dialled one, but got no SHIP message", c.ID, wit)
		}
		return
	}
	if !got && conns > 0 {
		col.Count(prop, "refused:outbound:"+c.CertKind, 1)
	}
	if got {
		col.Violation(prop, "outbound-accepted:"+c.CertKind, "the hub sent a SHIP message to a server whose certificate does not bind the dialled SKI to its key", c.ID, wit)
	}
}

func reasonClass(c *c02Case) string {
	var r []string
	if c.CertKind != "correct" {
		r = append(r, "cert")
	}
	if c.TLSMax < tls.VersionTLS12 {
		r = append(r, "tls")
	}
	if c.Protos != "ship" && c.Protos != "other+ship" {
		r = append(r, "subprotocol")
	}
	return strings.Join(r, "+")
}
