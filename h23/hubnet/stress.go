package hubnet

import (
	"fmt"
	"sync"
	"sync/atomic"
	"time"

	vc "verifcommon"
)

// C20 stress profile: three hubs in a full mesh; application goroutines issue every hub API
// concurrently with inbound/outbound connection establishment, handshakes, SPINE traffic, closes
// from either side, TCP cuts and mDNS add/remove storms. The oracle is the Go race detector
// (reports are collected by the driver); the harness records which operations overlapped.

type opSpan struct {
	name      string
	call, ret int64
}

func runStress(seed uint64, idx int, col *vc.Collector) {
	const prop = "C20"
	col.Eval(prop, 1)
	r := vc.NewRand(seed, engine+"-stress", uint64(idx))
	nw := NewNet()
	var nodes []*Node
	for i := 0; i < 3; i++ {
		n, err := nw.AddNode(fmt.Sprintf("N%d", i), nil)
		if err != nil {
			col.Inconclusive(prop, "setup")
			nw.Close()
			return
		}
		n.App.Echo.Store(true)
		n.App.StoreID.Store(r.Bool())
		nodes = append(nodes, n)
	}
	for i := range nodes {
		for j := i + 1; j < len(nodes); j++ {
			if err := nw.Link(nodes[i], nodes[j]); err != nil {
				col.Inconclusive(prop, "setup")
				nw.Close()
				return
			}
		}
	}
	// some registrations before start, the rest concurrently afterwards
	for i, n := range nodes {
		for j, m := range nodes {
			if i != j && r.Bool() {
				n.Register(m.SKI)
			}
		}
	}
	var spans []opSpan
	var smu sync.Mutex
	var clock atomic.Int64
	do := func(name string, f func()) {
		c := clock.Add(1)
		f()
		e := clock.Add(1)
		smu.Lock()
		spans = append(spans, opSpan{name, c, e})
		smu.Unlock()
	}
	var wg sync.WaitGroup
	for _, n := range nodes {
		n := n
		wg.Add(1)
		go func() { defer wg.Done(); do("start", n.Start) }()
	}
	stop := make(chan struct{})
	workers := 3
	opsPer := 14
	for ni, n := range nodes {
		for w := 0; w < workers; w++ {
			n := n
			rr := r.Fork(fmt.Sprintf("w%d-%d", ni, w))
			wg.Add(1)
			go func() {
				defer wg.Done()
				for k := 0; k < opsPer; k++ {
					m := nodes[rr.Intn(len(nodes))]
					if m == n {
						continue
					}
					switch rr.Intn(14) {
					case 0, 1:
						do("register", func() { n.Register(m.SKI) })
					case 2:
						do("unregister", func() { n.Unregister(m.SKI) })
					case 3:
						do("disconnect", func() { n.Disconnect(m.SKI) })
					case 4:
						do("cancel", func() { n.Cancel(m.SKI) })
					case 5:
						do("pairing-detail", func() { _ = n.PairingState(m.SKI) })
					case 6:
						do("service-lookup", func() {
							s := n.Hub.ServiceForSKI(m.SKI)
							_ = s.Trusted()
							_ = s.ShipID()
							_ = s.ConnectionStateDetail().State()
						})
					case 7:
						do("auto-accept", func() { n.SetAutoAccept(rr.Bool()) })
					case 8, 9:
						do("send", func() { n.Send(m.SKI, fmt.Sprintf("%s-%d", n.Name, rr.Intn(1000))) })
					case 10:
						do("allow-wait", func() { n.App.AllowWait.Store(rr.Bool()) })
					case 11:
						do("qr", func() { _ = n.Mgr.QRCodeText() })
					case 12, 13:
						// a SKI the hub has never seen (first appearance through the public API)
						fresh := fmt.Sprintf("%036x%04x", 0xfeed, rr.Intn(65536))
						do("lookup-unknown-ski", func() {
							_ = n.PairingState(fresh)
							_ = n.Hub.ServiceForSKI(fresh).Trusted()
						})
					}
					time.Sleep(time.Duration(rr.Intn(120)) * time.Millisecond)
				}
			}()
		}
	}
	// chaos: cuts and mDNS storms
	cr := r.Fork("chaos")
	wg.Add(1)
	go func() {
		defer wg.Done()
		for k := 0; k < 20; k++ {
			select {
			case <-stop:
				return
			default:
			}
			a, b := nodes[cr.Intn(3)], nodes[cr.Intn(3)]
			if a == b {
				continue
			}
			switch cr.Intn(4) {
			case 0:
				do("tcp-cut", func() { nw.Proxy(a, b).Cut() })
			case 1:
				do("mdns-hide", func() { nw.Bus.SetVisible(a, b, false) })
			case 2:
				do("mdns-show", func() { nw.Bus.SetVisible(a, b, true) })
			case 3:
				do("mdns-reannounce", func() { _ = a.Mgr.AnnounceMdnsEntry() })
			}
			time.Sleep(time.Duration(cr.Intn(150)) * time.Millisecond)
		}
	}()
	// one hub shuts down while the others are still busy
	shutdownAfter := time.Duration(600+r.Intn(900)) * time.Millisecond
	wg.Add(1)
	go func() {
		defer wg.Done()
		time.Sleep(shutdownAfter)
		do("shutdown", nodes[2].Shutdown)
	}()
	done := make(chan struct{})
	go func() { wg.Wait(); close(done) }()
	select {
	case <-done:
	case <-time.After(90 * time.Second):
		col.Inconclusive(prop, "stress-watchdog")
	}
	close(stop)
	time.Sleep(700 * time.Millisecond) // delayed notifications and closes
	nw.Close()
	// which operation kinds overlapped in this run (the "interleavings seen" measure)
	smu.Lock()
	defer smu.Unlock()
	for i := range spans {
		for j := i + 1; j < len(spans); j++ {
			a, b := spans[i], spans[j]
			if a.call < b.ret && b.call < a.ret {
				x, y := a.name, b.name
				if x > y {
					x, y = y, x
				}
				col.Class(prop, "overlap:"+x+"|"+y)
			}
		}
	}
	col.Count(prop, "api-operations", len(spans))
}
