// Package hubnet: engine S1 - real hubs over loopback TLS/websocket, a fake mDNS bus behind the real
// MdnsManager, TCP proxies between the hubs, recording applications and adversarial TLS peers.
package hubnet

import (
	"crypto"
	"crypto/ecdsa"
	"crypto/ed25519"
	"crypto/elliptic"
	"crypto/rand"
	"crypto/rsa"
	"crypto/sha1"
	"crypto/tls"
	"crypto/x509"
	"crypto/x509/pkix"
	"encoding/asn1"
	"fmt"
	"math/big"
	"net"
	"sort"
	"strings"
	"sync"
	"sync/atomic"
	"time"

	"github.com/enbility/ship-go/api"
	"github.com/enbility/ship-go/cert"
	"github.com/enbility/ship-go/hub"
	"github.com/enbility/ship-go/mdns"
)

// ---- event log ---------------------------------------------------------------------------------

var gseq atomic.Int64

type Ev struct {
	Seq  int64         `json:"seq"`
	T    time.Duration `json:"t"`
	Who  string        `json:"who"`
	Kind string        `json:"kind"`
	Ski  string        `json:"ski,omitempty"`
	S    string        `json:"s,omitempty"`
	N    int           `json:"n,omitempty"`
}

type Log struct {
	mu  sync.Mutex
	evs []Ev
	t0  time.Time
}

func NewLog() *Log { return &Log{t0: time.Now()} }

func (l *Log) Add(who, kind, ski, s string, n int) Ev {
	e := Ev{Seq: gseq.Add(1), T: time.Since(l.t0), Who: who, Kind: kind, Ski: ski, S: s, N: n}
	l.mu.Lock()
	l.evs = append(l.evs, e)
	l.mu.Unlock()
	return e
}

func (l *Log) Events() []Ev {
	l.mu.Lock()
	defer l.mu.Unlock()
	return append([]Ev(nil), l.evs...)
}

func Compact(evs []Ev, max int) []string {
	var out []string
	st := 0
	if len(evs) > max {
		st = len(evs) - max
		out = append(out, fmt.Sprintf("... %d earlier events omitted", st))
	}
	for _, e := range evs[st:] {
		s := e.S
		if len(s) > 120 {
			s = s[:120] + "..."
		}
		out = append(out, fmt.Sprintf("#%d %v %s %s %s %q n=%d", e.Seq, e.T.Round(time.Millisecond), e.Who, e.Kind, short(e.Ski), s, e.N))
	}
	return out
}

func short(ski string) string {
	if len(ski) > 8 {
		return ski[:8]
	}
	return ski
}

// ---- ports ---------------------------------------------------------------------------------------

var nextPort atomic.Int32

func InitPorts(shard int) { nextPort.Store(int32(20000 + shard*2500)) }

// FreePort hands out ports from this process's range that are free right now.
func FreePort() int {
	for {
		p := int(nextPort.Add(1))
		if p > 64000 {
			nextPort.Store(20000)
			continue
		}
		ln, err := net.Listen("tcp", fmt.Sprintf(":%d", p))
		if err != nil {
			continue
		}
		_ = ln.Close()
		return p
	}
}

// ---- certificates ----------------------------------------------------------------------------------

type CertOpts struct {
	NoSKI   bool
	SKI     []byte // explicit SKI bytes (nil: derive from the key)
	KeyType string // "" / p256, p384, ed25519, rsa
	AKI     []byte // authority key identifier (nil: none)
}

// keySKI: SHA-1 over the subjectPublicKey bit string (RFC 3280 4.2.1.2 method 1), for any key type.
func keySKI(pub any) ([]byte, error) {
	der, err := x509.MarshalPKIXPublicKey(pub)
	if err != nil {
		return nil, err
	}
	var spki struct {
		Algorithm pkix.AlgorithmIdentifier
		PublicKey asn1.BitString
	}
	if _, err := asn1.Unmarshal(der, &spki); err != nil {
		return nil, err
	}
	sum := sha1.Sum(spki.PublicKey.RightAlign())
	return sum[:], nil
}

// MakeCert creates a self-signed certificate with the given key type and SKI treatment.
func MakeCert(o CertOpts) (tls.Certificate, string, error) {
	var priv crypto.Signer
	var err error
	sigAlg := x509.ECDSAWithSHA256
	switch o.KeyType {
	case "ed25519":
		_, k, e := ed25519.GenerateKey(rand.Reader)
		priv, err, sigAlg = k, e, x509.PureEd25519
	case "rsa":
		k, e := rsa.GenerateKey(rand.Reader, 2048)
		priv, err, sigAlg = k, e, x509.SHA256WithRSA
	case "p384":
		k, e := ecdsa.GenerateKey(elliptic.P384(), rand.Reader)
		priv, err, sigAlg = k, e, x509.ECDSAWithSHA384
	default:
		k, e := ecdsa.GenerateKey(elliptic.P256(), rand.Reader)
		priv, err = k, e
	}
	if err != nil {
		return tls.Certificate{}, "", err
	}
	ski, err := keySKI(priv.Public())
	if err != nil {
		return tls.Certificate{}, "", err
	}
	if o.SKI != nil {
		ski = o.SKI
	}
	serial, _ := rand.Int(rand.Reader, big.NewInt(1<<62))
	tmpl := x509.Certificate{SignatureAlgorithm: sigAlg, SerialNumber: serial,
		Subject:   pkix.Name{Organization: []string{"verif"}, CommonName: "adversary"},
		NotBefore: time.Now().Add(-time.Hour), NotAfter: time.Now().Add(24 * time.Hour), KeyUsage: x509.KeyUsageDigitalSignature,
		BasicConstraintsValid: true, IsCA: true}
	if o.AKI != nil {
		tmpl.AuthorityKeyId = o.AKI
	}
	if !o.NoSKI {
		tmpl.SubjectKeyId = ski
	} else {
		// x509.CreateCertificate derives a key identifier itself for CA templates without one
		tmpl.IsCA = false
		tmpl.BasicConstraintsValid = false
	}
	der, err := x509.CreateCertificate(rand.Reader, &tmpl, &tmpl, priv.Public(), priv)
	if err != nil {
		return tls.Certificate{}, "", err
	}
	return tls.Certificate{Certificate: [][]byte{der}, PrivateKey: priv}, fmt.Sprintf("%x", ski), nil
}

// ---- application (HubReaderInterface) ---------------------------------------------------------------

type App struct {
	Name      string
	dead      atomic.Bool // the hub behind this application was replaced by a restart: a real reboot leaves nothing behind
	L         *Log
	AllowWait atomic.Bool
	Echo      atomic.Bool  // echo every received payload back
	StoreID   atomic.Bool  // store reported SHIP ids in the service details
	SlowMs    atomic.Int32 // a slow application: every callback takes this long (0 = immediate)
	node      *Node

	mu      sync.Mutex
	writers map[string]api.ShipConnectionDataWriterInterface // latest writer per SKI
}

type appReader struct {
	a   *App
	ski string
	w   api.ShipConnectionDataWriterInterface
}

func (r *appReader) HandleShipPayloadMessage(m []byte) {
	r.a.L.Add(r.a.who(), "payload", r.ski, string(m), len(m))
	if r.a.Echo.Load() && !strings.Contains(string(m), `"echo":true`) {
		r.w.WriteShipMessageWithPayload([]byte(strings.Replace(string(m), `"echo":false`, `"echo":true`, 1)))
	}
}

func (a *App) who() string {
	if a.dead.Load() {
		return a.Name + "(before-restart)"
	}
	return a.Name
}

func (a *App) slow() {
	if ms := a.SlowMs.Load(); ms > 0 {
		time.Sleep(time.Duration(ms) * time.Millisecond)
	}
}

func (a *App) RemoteSKIConnected(ski string) { a.L.Add(a.who(), "connected", ski, "", 0) }
func (a *App) RemoteSKIDisconnected(ski string) {
	a.L.Add(a.who(), "disconnected", ski, "", 0)
	a.slow()
}
func (a *App) SetupRemoteDevice(ski string, w api.ShipConnectionDataWriterInterface) api.ShipConnectionDataReaderInterface {
	a.mu.Lock()
	a.writers[ski] = w
	a.mu.Unlock()
	a.L.Add(a.who(), "setup", ski, "", 0)
	a.slow()
	return &appReader{a: a, ski: ski, w: w}
}
func (a *App) VisibleRemoteServicesUpdated(entries []api.RemoteService) {
	var skis []string
	for _, e := range entries {
		skis = append(skis, short(e.Ski))
	}
	sort.Strings(skis)
	a.L.Add(a.who(), "visible", "", strings.Join(skis, ","), len(entries))
}
func (a *App) ServiceShipIDUpdate(ski string, id string) {
	a.L.Add(a.who(), "shipid", ski, id, 0)
	if a.StoreID.Load() && a.node != nil {
		a.node.Hub.ServiceForSKI(ski).SetShipID(id)
	}
}
func (a *App) ServicePairingDetailUpdate(ski string, d *api.ConnectionStateDetail) {
	es := ""
	if d.Error() != nil {
		es = d.Error().Error()
	}
	a.L.Add(a.who(), "pairing", ski, es, int(d.State()))
}
func (a *App) AllowWaitingForTrust(ski string) bool {
	v := a.AllowWait.Load()
	return v
}

func (a *App) Writer(ski string) api.ShipConnectionDataWriterInterface {
	a.mu.Lock()
	defer a.mu.Unlock()
	return a.writers[ski]
}

// ---- mDNS bus -------------------------------------------------------------------------------------

// busProvider is the fake api.MdnsProviderInterface below the real MdnsManager of one node.
type busProvider struct {
	bus  *Bus
	node *Node
	cb   api.MdnsResolveCB
}

func (p *busProvider) Start(autoReconnect bool, cb api.MdnsResolveCB) bool {
	p.bus.mu.Lock()
	p.cb = cb
	// a browser that starts later still finds the services that are already announced
	type pending struct {
		n *Node
		a *announcement
	}
	var found []pending
	for n, a := range p.bus.ann {
		if n != p.node && !p.bus.hidden[[2]*Node{p.node, n}] {
			found = append(found, pending{n, a})
		}
	}
	p.bus.mu.Unlock()
	go func() {
		// browse results take a network round trip
		time.Sleep(5 * time.Millisecond)
		for _, f := range found {
			p.bus.deliver(p.node, f.n, f.a, false)
		}
	}()
	return true
}
func (p *busProvider) Shutdown() { p.bus.unannounce(p.node) }
func (p *busProvider) Announce(name string, port int, txt []string) error {
	p.bus.announce(p.node, name, txt)
	return nil
}
func (p *busProvider) Unannounce() { p.bus.unannounce(p.node) }

// mdnsAdapter makes the real MdnsManager usable as the hub's api.MdnsInterface without its
// provider selection: Start attaches the bus provider through the verif hook.
type mdnsAdapter struct {
	*mdns.MdnsManager
	prov *busProvider
}

func (m *mdnsAdapter) Start(cb api.MdnsReportInterface) error {
	return m.MdnsManager.VerifAttach(m.prov, cb)
}

type announcement struct {
	name string
	txt  []string
}

type Bus struct {
	L       *Log
	mu      sync.Mutex
	nodes   []*Node
	ann     map[*Node]*announcement
	hidden  map[[2]*Node]bool // [viewer, announcer] -> announcer invisible to viewer
	proxies map[[2]*Node]*Proxy
}

func NewBus(l *Log) *Bus {
	return &Bus{L: l, ann: map[*Node]*announcement{}, hidden: map[[2]*Node]bool{}, proxies: map[[2]*Node]*Proxy{}}
}

func (b *Bus) deliver(viewer, announcer *Node, a *announcement, remove bool) {
	b.mu.Lock()
	cb := viewer.prov.cb
	px := b.proxies[[2]*Node{viewer, announcer}]
	b.mu.Unlock()
	if cb == nil || px == nil {
		return
	}
	el := mdns.VerifParseTxt(a.txt)
	if remove {
		cb(el, a.name, "", nil, -1, true)
	} else {
		// IPv6 listed first, as resolvers often report it: the hub prefers IPv4 when it dials (the proxies listen on
		// 127.0.0.1 only)
		cb(el, a.name, "", []net.IP{net.ParseIP("::1"), net.IPv4(127, 0, 0, 1)}, px.Port, false)
	}
}

func (b *Bus) announce(n *Node, name string, txt []string) {
	a := &announcement{name: name, txt: append([]string(nil), txt...)}
	b.mu.Lock()
	b.ann[n] = a
	var viewers []*Node
	for _, v := range b.nodes {
		if v != n && !b.hidden[[2]*Node{v, n}] {
			viewers = append(viewers, v)
		}
	}
	b.mu.Unlock()
	b.L.Add(n.Name, "mdns-announce", "", strings.Join(txt, " "), 0)
	for _, v := range viewers {
		b.deliver(v, n, a, false)
	}
}

func (b *Bus) unannounce(n *Node) {
	b.mu.Lock()
	a := b.ann[n]
	delete(b.ann, n)
	var viewers []*Node
	for _, v := range b.nodes {
		if v != n && !b.hidden[[2]*Node{v, n}] {
			viewers = append(viewers, v)
		}
	}
	b.mu.Unlock()
	if a == nil {
		return
	}
	b.L.Add(n.Name, "mdns-unannounce", "", "", 0)
	for _, v := range viewers {
		b.deliver(v, n, a, true)
	}
}

// SetVisible changes whether viewer sees announcer; appearing/disappearing is delivered as an event.
func (b *Bus) SetVisible(viewer, announcer *Node, visible bool) {
	b.mu.Lock()
	was := !b.hidden[[2]*Node{viewer, announcer}]
	b.hidden[[2]*Node{viewer, announcer}] = !visible
	a := b.ann[announcer]
	b.mu.Unlock()
	if a == nil || was == visible {
		return
	}
	b.L.Add(viewer.Name, "mdns-visibility", announcer.SKI, fmt.Sprint(visible), 0)
	b.deliver(viewer, announcer, a, !visible)
}

// ---- TCP proxy --------------------------------------------------------------------------------------

type Proxy struct {
	L         *Log
	From, To  *Node
	Port      int
	ln        net.Listener
	mu        sync.Mutex
	conns     map[int][2]net.Conn
	n         int
	blackhole bool
	refuse    bool
	closed    bool
	frozen    bool // relayed data is held back (a silent network), released by Unfreeze or dropped by Cut
	thaw      *sync.Cond
	Accepts   atomic.Int32
}

func NewProxy(l *Log, from, to *Node) (*Proxy, error) {
	p := &Proxy{L: l, From: from, To: to, conns: map[int][2]net.Conn{}}
	p.thaw = sync.NewCond(&p.mu)
	p.Port = FreePort()
	ln, err := net.Listen("tcp", fmt.Sprintf("127.0.0.1:%d", p.Port))
	if err != nil {
		return nil, err
	}
	p.ln = ln
	go p.loop()
	return p, nil
}

func (p *Proxy) loop() {
	for {
		c, err := p.ln.Accept()
		if err != nil {
			return
		}
		p.Accepts.Add(1)
		p.mu.Lock()
		p.n++
		id := p.n
		refuse, bh := p.refuse, p.blackhole
		p.mu.Unlock()
		p.L.Add(p.From.Name, "tcp-accept", p.To.SKI, "", id)
		if refuse {
			_ = c.Close()
			continue
		}
		if bh {
			p.mu.Lock()
			p.conns[id] = [2]net.Conn{c, nil}
			p.mu.Unlock()
			continue
		}
		u, err := net.DialTimeout("tcp", fmt.Sprintf("127.0.0.1:%d", p.To.Port), 2*time.Second)
		if err != nil {
			_ = c.Close()
			continue
		}
		p.mu.Lock()
		p.conns[id] = [2]net.Conn{c, u}
		p.mu.Unlock()
		done := func() {
			_ = c.Close()
			_ = u.Close()
			p.mu.Lock()
			if _, ok := p.conns[id]; ok {
				delete(p.conns, id)
				p.mu.Unlock()
				p.L.Add(p.From.Name, "tcp-end", p.To.SKI, "", id)
				return
			}
			p.mu.Unlock()
		}
		go func() { p.relay(u, c); done() }()
		go func() { p.relay(c, u); done() }()
	}
}

// relay copies src to dst; while the proxy is frozen what was read is held back.
func (p *Proxy) relay(dst, src net.Conn) {
	buf := make([]byte, 32*1024)
	for {
		n, err := src.Read(buf)
		if n > 0 {
			p.mu.Lock()
			for p.frozen {
				p.thaw.Wait()
			}
			p.mu.Unlock()
			if _, werr := dst.Write(buf[:n]); werr != nil {
				return
			}
		}
		if err != nil {
			return
		}
	}
}

// Freeze holds all relayed data back (both directions of this proxy) until Unfreeze.
func (p *Proxy) Freeze() {
	p.mu.Lock()
	p.frozen = true
	p.mu.Unlock()
}

func (p *Proxy) Unfreeze() {
	p.mu.Lock()
	p.frozen = false
	p.mu.Unlock()
	p.thaw.Broadcast()
}

// Live returns the number of TCP connections currently relayed.
func (p *Proxy) Live() int {
	p.mu.Lock()
	defer p.mu.Unlock()
	return len(p.conns)
}

// Cut closes every relayed connection.
func (p *Proxy) Cut() {
	p.mu.Lock()
	cs := p.conns
	p.conns = map[int][2]net.Conn{}
	p.mu.Unlock()
	for id, c := range cs {
		if c[0] != nil {
			_ = c[0].Close()
		}
		if c[1] != nil {
			_ = c[1].Close()
		}
		p.L.Add(p.From.Name, "tcp-cut", p.To.SKI, "", id)
	}
}

func (p *Proxy) SetRefuse(v bool) {
	p.mu.Lock()
	p.refuse = v
	p.mu.Unlock()
}

func (p *Proxy) Close() {
	_ = p.ln.Close()
	p.Cut()
}

// ---- node ----------------------------------------------------------------------------------------------

type Node struct {
	Name   string
	SKI    string
	Cert   tls.Certificate
	Port   int
	Hub    *hub.Hub
	App    *App
	Mgr    *mdns.MdnsManager
	prov   *busProvider
	bus    *Bus
	L      *Log
	ShipID string
	hmu    sync.Mutex
}

// H returns the current hub (the hub is replaced by Restart).
func (nd *Node) H() *hub.Hub {
	nd.hmu.Lock()
	defer nd.hmu.Unlock()
	return nd.Hub
}

// Net is one scenario's network.
type Net struct {
	L     *Log
	Bus   *Bus
	Nodes []*Node
}

func NewNet() *Net {
	l := NewLog()
	return &Net{L: l, Bus: NewBus(l)}
}

func skiOf(c tls.Certificate) string {
	leaf, err := x509.ParseCertificate(c.Certificate[0])
	if err != nil {
		return ""
	}
	s, _ := cert.SkiFromCertificate(leaf)
	return s
}

// AddNode creates a hub (not started) with its application and mDNS manager on the bus.
func (n *Net) AddNode(name string, c *tls.Certificate) (*Node, error) {
	var crt tls.Certificate
	if c != nil {
		crt = *c
	} else {
		var err error
		crt, err = cert.CreateCertificate("unit", "verif", "DE", name)
		if err != nil {
			return nil, err
		}
	}
	nd := &Node{Name: name, Cert: crt, SKI: skiOf(crt), Port: FreePort(), L: n.L, bus: n.Bus, ShipID: "SHIPID-" + name}
	nd.build()
	n.Bus.mu.Lock()
	n.Bus.nodes = append(n.Bus.nodes, nd)
	n.Bus.mu.Unlock()
	n.Nodes = append(n.Nodes, nd)
	return nd, nil
}

func (nd *Node) build() {
	nd.App = &App{Name: nd.Name, L: nd.L, writers: map[string]api.ShipConnectionDataWriterInterface{}, node: nd}
	nd.App.AllowWait.Store(true)
	nd.Mgr = mdns.NewMDNS(nd.SKI, "brand", "model", "type", "serial-"+nd.Name, nil, nd.ShipID, "svc-"+nd.Name, nd.Port, nil, mdns.MdnsProviderSelectionAll)
	nd.bus.mu.Lock()
	nd.prov = &busProvider{bus: nd.bus, node: nd}
	nd.bus.mu.Unlock()
	local := api.NewServiceDetails(nd.SKI)
	local.SetShipID(nd.ShipID)
	h := hub.NewHub(nd.App, &mdnsAdapter{MdnsManager: nd.Mgr, prov: nd.prov}, nd.Port, nd.Cert, local)
	nd.hmu.Lock()
	nd.Hub = h
	nd.hmu.Unlock()
}

// Restart replaces the hub of a node by a fresh one (same certificate and port): a device reboot.
func (nd *Node) Restart() {
	nd.App.dead.Store(true)
	nd.Hub.Shutdown()
	nd.bus.unannounce(nd)
	nd.bus.mu.Lock()
	nd.prov.cb = nil
	var touching []*Proxy
	for k, p := range nd.bus.proxies {
		if k[0] == nd || k[1] == nd {
			touching = append(touching, p)
		}
	}
	nd.bus.mu.Unlock()
	waitPortFree(nd.Port)
	// a reboot leaves nothing behind: connections the old instance still accepted while it was
	// shutting down (Hub.Shutdown does not refuse inbound requests already in flight) die with it
	for _, p := range touching {
		p.Cut()
	}
	time.Sleep(20 * time.Millisecond)
	for _, p := range touching {
		p.Cut()
	}
	nd.build()
}

func waitPortFree(port int) {
	for i := 0; i < 200; i++ {
		ln, err := net.Listen("tcp", fmt.Sprintf(":%d", port))
		if err == nil {
			_ = ln.Close()
			return
		}
		time.Sleep(10 * time.Millisecond)
	}
}

// Start starts the hub and waits until its TLS port accepts TCP connections.
func (nd *Node) Start() {
	nd.L.Add(nd.Name, "api:start", "", "", 0)
	nd.Hub.Start()
	for i := 0; i < 300; i++ {
		c, err := net.DialTimeout("tcp", fmt.Sprintf("127.0.0.1:%d", nd.Port), time.Second)
		if err == nil {
			_ = c.Close()
			break
		}
		time.Sleep(5 * time.Millisecond)
	}
	nd.L.Add(nd.Name, "api:start-ret", "", "", 0)
}

// Link creates the proxies in both directions between two nodes.
func (n *Net) Link(a, b *Node) error {
	for _, pr := range [][2]*Node{{a, b}, {b, a}} {
		p, err := NewProxy(n.L, pr[0], pr[1])
		if err != nil {
			return err
		}
		n.Bus.mu.Lock()
		n.Bus.proxies[[2]*Node{pr[0], pr[1]}] = p
		n.Bus.mu.Unlock()
	}
	return nil
}

func (n *Net) Proxy(from, to *Node) *Proxy {
	n.Bus.mu.Lock()
	defer n.Bus.mu.Unlock()
	return n.Bus.proxies[[2]*Node{from, to}]
}

func (n *Net) Close() {
	for _, nd := range n.Nodes {
		nd.Hub.Shutdown()
	}
	n.Bus.mu.Lock()
	ps := n.Bus.proxies
	n.Bus.proxies = map[[2]*Node]*Proxy{}
	n.Bus.mu.Unlock()
	for _, p := range ps {
		p.Close()
	}
}

// API wrappers: call/return events with global sequence numbers.
func (nd *Node) Register(ski string) {
	nd.L.Add(nd.Name, "api:register", ski, "", 0)
	nd.Hub.RegisterRemoteSKI(ski)
	nd.L.Add(nd.Name, "api:register-ret", ski, "", 0)
}
func (nd *Node) Unregister(ski string) {
	nd.L.Add(nd.Name, "api:unregister", ski, "", 0)
	nd.Hub.UnregisterRemoteSKI(ski)
	nd.L.Add(nd.Name, "api:unregister-ret", ski, "", 0)
}
func (nd *Node) Disconnect(ski string) {
	nd.L.Add(nd.Name, "api:disconnect", ski, "", 0)
	nd.Hub.DisconnectSKI(ski, "verif")
	nd.L.Add(nd.Name, "api:disconnect-ret", ski, "", 0)
}
func (nd *Node) Cancel(ski string) {
	nd.L.Add(nd.Name, "api:cancel", ski, "", 0)
	nd.Hub.CancelPairingWithSKI(ski)
	nd.L.Add(nd.Name, "api:cancel-ret", ski, "", 0)
}
func (nd *Node) SetAutoAccept(v bool) {
	nd.L.Add(nd.Name, "api:autoaccept", "", fmt.Sprint(v), 0)
	nd.Hub.SetAutoAccept(v)
	nd.L.Add(nd.Name, "api:autoaccept-ret", "", "", 0)
}
func (nd *Node) Shutdown() {
	nd.L.Add(nd.Name, "api:shutdown", "", "", 0)
	nd.Hub.Shutdown()
	nd.L.Add(nd.Name, "api:shutdown-ret", "", "", 0)
}
func (nd *Node) PairingState(ski string) int {
	return int(nd.Hub.PairingDetailForSki(ski).State())
}

// Send writes a uniquely numbered payload to the peer; returns false if there is no writer.
func (nd *Node) Send(ski, uid string) bool {
	w := nd.App.Writer(ski)
	if w == nil {
		return false
	}
	nd.L.Add(nd.Name, "send", ski, uid, 0)
	w.WriteShipMessageWithPayload([]byte(fmt.Sprintf(`{"datagram":{"id":"%s","echo":false}}`, uid)))
	return true
}

// WaitFor polls cond until it holds or the (generous, real-time) limit passes.
func WaitFor(limit time.Duration, cond func() bool) bool {
	deadline := time.Now().Add(limit)
	for {
		if cond() {
			return true
		}
		if time.Now().After(deadline) {
			return false
		}
		time.Sleep(10 * time.Millisecond)
	}
}
