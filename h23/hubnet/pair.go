package hubnet

import (
	"fmt"
	"strings"
	"time"

	"github.com/enbility/ship-go/api"

	vc "verifcommon"
)

// Pair scenarios: two hubs that register each other, disturbances, then convergence (C05), with the
// application-level accounting (C11), payload echo (C06/C07 end to end) and notification order (C18)
// monitored on the same runs.

type Disturb struct {
	Kind string        `json:"kind"` // disconnect:A, disconnect:B, cut, restart:B, hide:A, hide:B, show
	Gap  time.Duration `json:"gap"`
}

type PairScn struct {
	ID           string    `json:"id"`
	RegBefore    [2]bool   `json:"reg_before_start"`
	Simultaneous bool      `json:"simultaneous"` // both registrations released at the same instant after start
	OneSided     bool      `json:"one_sided_visibility"`
	SlowApp      [2]int    `json:"slow_app_ms"` // how long the applications' disconnect / setup callbacks take
	Disturbs     []Disturb `json:"disturbs"`
	// OneSidedPhase: A has registered B and dials, B's user has not registered A yet (request pending at B); a
	// disturbance hits that connection; only afterwards B registers A
	OneSidedPhase string `json:"one_sided_phase,omitempty"` // "", cut, disconnect:A, disconnect:B, restart:B, restart:A, none
	// EarlyCut: milliseconds after the (simultaneous) registrations at which all TCP connections are cut, while the
	// first connections / the double connection are being set up (-1: no early cut)
	EarlyCut int `json:"early_cut_ms"`
	// Churn: after the final convergence that many further close / reconnect cycles, each followed by a
	// settled checkpoint (C18: last notification = current state; C11: last of setup/disconnected)
	Churn int `json:"churn,omitempty"`
}

type pairResult struct {
	Evs         []Ev
	Converged   bool
	Reason      string
	Busy        bool // dial attempts still being started when the watchdog fired
	Timeline    []string
	Echo        [2]bool
	Doubles     int
	ChurnRuns   int // settled checkpoints reached in the churn phase
	Accepts     int // TCP connections between the two hubs during the whole scenario
	Undisturbed bool
}

func genPair(r *vc.Rand) *PairScn {
	sc := &PairScn{RegBefore: [2]bool{r.Bool(), r.Bool()}, Simultaneous: r.Chance(1, 3), OneSided: r.Chance(1, 6)}
	if r.Chance(1, 4) {
		// forced simultaneous dials: both sides register after Start at the same instant, both dial at once
		sc.RegBefore, sc.Simultaneous, sc.OneSided = [2]bool{false, false}, true, false
	}
	if r.Chance(1, 3) {
		sc.SlowApp = [2]int{vc.Pick(r, []int{0, 50, 300, 800}), vc.Pick(r, []int{0, 50, 300, 800})}
	}
	n := r.Intn(5)
	for i := 0; i < n; i++ {
		sc.Disturbs = append(sc.Disturbs, Disturb{
			Kind: vc.Pick(r, []string{"disconnect:A", "disconnect:B", "cut", "cut", "restart:B", "hide:A", "hide:B", "both-disconnect",
				"stall-disconnect-cut:A", "stall-disconnect-cut:B", "stall-cut"}),
			Gap:  time.Duration(vc.Pick(r, []int{0, 20, 100, 400, 600, 1200, 2500})) * time.Millisecond})
	}
	if r.Chance(1, 3) {
		sc.Churn = r.Range(3, 8)
	}
	sc.EarlyCut = -1
	if r.Chance(1, 5) {
		// both start unregistered, A registers, the request waits at B, something happens to that connection
		sc.RegBefore, sc.Simultaneous, sc.OneSided = [2]bool{false, false}, false, false
		sc.OneSidedPhase = vc.Pick(r, []string{"cut", "cut", "disconnect:A", "disconnect:B", "restart:B", "restart:A", "none"})
	} else if sc.Simultaneous && !sc.RegBefore[0] && !sc.RegBefore[1] && r.Chance(3, 4) {
		// forced simultaneous dials (both register after Start at the same instant and dial at once): the two
		// connections cross; the cut lands while they are being run and registered
		sc.EarlyCut = vc.Pick(r, []int{1, 2, 3, 4, 5, 6, 7, 8, 9, 10, 12, 15})
	} else if sc.Simultaneous && r.Chance(1, 2) {
		sc.EarlyCut = vc.Pick(r, []int{0, 1, 2, 3, 4, 5, 6, 8, 12, 16, 20, 25})
	}
	return sc
}

func pairState(nw *Net, a, b *Node) (ok bool, why string) {
	ra, rb := a.Hub.VerifRegistry(), b.Hub.VerifRegistry()
	ea, okA := ra[b.SKI]
	eb, okB := rb[a.SKI]
	live := nw.Proxy(a, b).Live() + nw.Proxy(b, a).Live()
	switch {
	case !okA && !okB:
		return false, fmt.Sprintf("zero-connections(live-tcp=%d)", live)
	case okA != okB:
		return false, fmt.Sprintf("one-sided-connection(A=%v,B=%v,live-tcp=%d)", okA, okB, live)
	case ea.Closed || eb.Closed:
		return false, fmt.Sprintf("stale-registry-entry(A.closed=%v,B.closed=%v)", ea.Closed, eb.Closed)
	case ea.State != 38 || eb.State != 38:
		return false, fmt.Sprintf("not-completed(A=%d,B=%d)", ea.State, eb.State)
	case live != 1:
		return false, fmt.Sprintf("live-tcp-connections=%d", live)
	case a.PairingState(b.SKI) != 7 || b.PairingState(a.SKI) != 7:
		return false, fmt.Sprintf("pairing-detail(A=%d,B=%d)", a.PairingState(b.SKI), b.PairingState(a.SKI))
	}
	return true, ""
}

func runPair(sc *PairScn) (res pairResult) {
	nw := NewNet()
	defer nw.Close()
	a, err := nw.AddNode("A", nil)
	if err != nil {
		res.Reason = "setup:" + err.Error()
		return
	}
	b, err := nw.AddNode("B", nil)
	if err != nil {
		res.Reason = "setup:" + err.Error()
		return
	}
	if err := nw.Link(a, b); err != nil {
		res.Reason = "setup:" + err.Error()
		return
	}
	a.App.Echo.Store(true)
	b.App.Echo.Store(true)
	a.App.SlowMs.Store(int32(sc.SlowApp[0]))
	b.App.SlowMs.Store(int32(sc.SlowApp[1]))
	// registry watcher: logs every change of the entry for the peer (identity, state, closed)
	stopWatch := make(chan struct{})
	defer close(stopWatch)
	for _, pr := range [][2]*Node{{a, b}, {b, a}} {
		nd, peer := pr[0], pr[1]
		go func() {
			last := ""
			var lastConn api.ShipConnectionInterface
			var lastHub = nd.H()
			for {
				select {
				case <-stopWatch:
					return
				default:
				}
				cur := "none"
				var curConn api.ShipConnectionInterface
				curHub := nd.H()
				if curHub != lastHub {
					// the node was restarted: a new hub with a new, empty registry
					lastHub, lastConn = curHub, nil
				}
				if e, ok := curHub.VerifRegistry()[peer.SKI]; ok {
					cur = fmt.Sprintf("%p state=%d closed=%v", e.Connection, e.State, e.Closed)
					curConn = e.Connection
				}
				if cur != last {
					nw.L.Add(nd.Name, "registry", peer.SKI, cur, 0)
					last = cur
				}
				if lastConn != nil && curConn != lastConn {
					// the registry forgot a connection: it has to be one that ended (C11). Give a
					// closing connection time to finish (graceful close: 500 ms), then look.
					old := lastConn
					h := nd.H()
					go func() {
						time.Sleep(1500 * time.Millisecond)
						closed, _ := old.DataHandler().IsDataConnectionClosed()
						select {
						case <-stopWatch:
							return
						default:
						}
						if !closed && h == nd.H() {
							nw.L.Add(nd.Name, "registry-dropped-live", peer.SKI, fmt.Sprintf("%p", old), 0)
						}
					}()
				}
				lastConn = curConn
				time.Sleep(time.Millisecond)
			}
		}()
	}
	if sc.OneSided {
		nw.Bus.SetVisible(a, b, false) // A never sees B's announcement: only B can dial
	}
	if sc.RegBefore[0] {
		a.Register(b.SKI)
	}
	if sc.RegBefore[1] {
		b.Register(a.SKI)
	}
	a.Start()
	b.Start()
	late := func() {
		if !sc.RegBefore[0] {
			a.Register(b.SKI)
		}
	}
	lateB := func() {
		if !sc.RegBefore[1] {
			b.Register(a.SKI)
		}
	}
	if sc.OneSidedPhase != "" {
		late()
		// the request is pending at B (its user has not decided), A waits
		WaitFor(10*time.Second, func() bool { return b.PairingState(a.SKI) == 3 })
		time.Sleep(time.Duration(50+len(sc.Disturbs)*130) * time.Millisecond)
		nw.L.Add("H", "disturb", "", "one-sided:"+sc.OneSidedPhase, 0)
		switch sc.OneSidedPhase {
		case "cut":
			nw.Proxy(a, b).Cut()
			nw.Proxy(b, a).Cut()
		case "disconnect:A":
			a.Disconnect(b.SKI)
		case "disconnect:B":
			b.Disconnect(a.SKI)
		case "restart:B":
			b.Restart()
			b.App.Echo.Store(true)
			b.Start()
		case "restart:A":
			a.Restart()
			a.App.Echo.Store(true)
			a.Register(b.SKI)
			a.Start()
		}
		time.Sleep(time.Duration(200+len(sc.Disturbs)*400) * time.Millisecond)
		b.Register(a.SKI)
	} else if sc.Simultaneous {
		done := make(chan struct{})
		go func() { late(); close(done) }()
		lateB()
		<-done
		if sc.EarlyCut >= 0 {
			// when the second TCP connection between the two is there (a double connection is being resolved, or
			// the first one is being replaced), a little later everything is cut
			acc := func() int32 { return nw.Proxy(a, b).Accepts.Load() + nw.Proxy(b, a).Accepts.Load() }
			deadline := time.Now().Add(4 * time.Second)
			for acc() < 2 && time.Now().Before(deadline) {
				time.Sleep(100 * time.Microsecond)
			}
			time.Sleep(time.Duration(sc.EarlyCut) * time.Millisecond)
			nw.L.Add("H", "disturb", "", "early-cut", sc.EarlyCut)
			nw.Proxy(a, b).Cut()
			nw.Proxy(b, a).Cut()
		}
	} else {
		late()
		time.Sleep(30 * time.Millisecond)
		lateB()
	}
	tl := func(s string) {
		res.Timeline = append(res.Timeline, fmt.Sprintf("%v %s", time.Since(nw.L.t0).Round(time.Millisecond), s))
	}
	// first convergence
	ok := WaitFor(40*time.Second, func() bool { ok, _ := pairState(nw, a, b); return ok })
	_, why := pairState(nw, a, b)
	tl(fmt.Sprintf("initial convergence=%v %s", ok, why))
	for _, d := range sc.Disturbs {
		nw.L.Add("H", "disturb", "", d.Kind, 0)
		switch d.Kind {
		case "disconnect:A":
			a.Disconnect(b.SKI)
		case "disconnect:B":
			b.Disconnect(a.SKI)
		case "both-disconnect":
			done := make(chan struct{})
			go func() { a.Disconnect(b.SKI); close(done) }()
			b.Disconnect(a.SKI)
			<-done
		case "cut":
			nw.Proxy(a, b).Cut()
			nw.Proxy(b, a).Cut()
		case "stall-disconnect-cut:A", "stall-disconnect-cut:B", "stall-cut":
			// the network goes silent (nothing is delivered, nothing is refused), an application disconnects
			// into the silence, then the connection is reset and the network is back
			pa, pb := nw.Proxy(a, b), nw.Proxy(b, a)
			pa.Freeze()
			pb.Freeze()
			switch d.Kind {
			case "stall-disconnect-cut:A":
				a.Disconnect(b.SKI)
			case "stall-disconnect-cut:B":
				b.Disconnect(a.SKI)
			}
			time.Sleep(vc.Pick(vc.NewRand(uint64(d.Gap), "stall", 0), []time.Duration{20, 100, 300, 450, 700}) * time.Millisecond)
			pa.Cut()
			pb.Cut()
			pa.Unfreeze()
			pb.Unfreeze()
		case "restart:B":
			b.Restart()
			b.App.Echo.Store(true)
			b.App.SlowMs.Store(int32(sc.SlowApp[1]))
			b.Register(a.SKI)
			b.Start()
		case "hide:A":
			nw.Bus.SetVisible(b, a, false)
			time.Sleep(d.Gap)
			nw.Bus.SetVisible(b, a, true)
		case "hide:B":
			if !sc.OneSided {
				nw.Bus.SetVisible(a, b, false)
				time.Sleep(d.Gap)
				nw.Bus.SetVisible(a, b, true)
			}
		}
		tl("disturb " + d.Kind)
		time.Sleep(d.Gap)
	}
	nw.L.Add("H", "quiet", "", "", 0)
	// bounded progress: within the watchdog after the last disturbance
	accepts := func() int32 { return nw.Proxy(a, b).Accepts.Load() + nw.Proxy(b, a).Accepts.Load() }
	conv := WaitFor(60*time.Second, func() bool {
		if ok, _ := pairState(nw, a, b); !ok {
			return false
		}
		// and stable for a while
		n0 := accepts()
		time.Sleep(1200 * time.Millisecond)
		ok, _ := pairState(nw, a, b)
		return ok && accepts() == n0
	})
	res.Converged = conv
	if !conv {
		_, res.Reason = pairState(nw, a, b)
		n0 := accepts()
		time.Sleep(4 * time.Second)
		res.Busy = accepts() != n0
		if res.Busy {
			// still dialling: give it another 40 s (more than ten further back-off rounds); a hub pair
			// that keeps redialling without ever converging is a livelock, not a slow convergence
			if WaitFor(40*time.Second, func() bool { ok, _ := pairState(nw, a, b); return ok }) {
				time.Sleep(1200 * time.Millisecond)
				if ok, _ := pairState(nw, a, b); ok {
					res.Converged = true
				}
			}
			if !res.Converged {
				_, res.Reason = pairState(nw, a, b)
				res.Reason = "redial-livelock:" + res.Reason
				res.Busy = false
			}
		}
		tl(fmt.Sprintf("not converged: %s busy=%v", res.Reason, res.Busy))
	} else {
		// payload echo in both directions on the kept connection
		for i, pr := range [][2]*Node{{a, b}, {b, a}} {
			uid := fmt.Sprintf("%s-final-%d", strings.ToLower(pr[0].Name), i)
			pr[0].Send(pr[1].SKI, uid)
			from := pr[0]
			res.Echo[i] = WaitFor(10*time.Second, func() bool {
				for _, e := range nw.L.Events() {
					if e.Who == from.Name && e.Kind == "payload" && strings.Contains(e.S, uid) && strings.Contains(e.S, `"echo":true`) {
						return true
					}
				}
				return false
			})
		}
		res.Accepts = int(accepts())
		res.Undisturbed = len(sc.Disturbs) == 0 && (sc.OneSidedPhase == "" || sc.OneSidedPhase == "none") && sc.EarlyCut < 0
		// let delayed notifications (500 ms) arrive
		time.Sleep(900 * time.Millisecond)
		nw.L.Add("H", "settled", "", "", 0)
		lastNote := func(nd, peer *Node) int {
			last := -1
			for _, e := range nw.L.Events() {
				if e.Who == nd.Name && e.Kind == "pairing" && e.Ski == peer.SKI {
					last = e.N
				}
				if e.Who == nd.Name && e.Kind == "api:start" {
					last = -1
				}
			}
			return last
		}
		checkpoint := func(kind string) {
			// a notification that is merely late (loaded machine) is no verdict: while the pair stays converged,
			// wait generously for the last notification to show the current state; a stale one stays stale
			n0 := accepts()
			WaitFor(8*time.Second, func() bool {
				return lastNote(a, b) == a.PairingState(b.SKI) && lastNote(b, a) == b.PairingState(a.SKI) || accepts() != n0
			})
			for _, nd := range []*Node{a, b} {
				peer := b
				if nd == b {
					peer = a
				}
				nw.L.Add(nd.Name, kind, peer.SKI, "", nd.PairingState(peer.SKI))
			}
		}
		checkpoint("final-pairing")
		// churn: further connection runs that end in the state reported last (completed again)
		cr := vc.NewRand(uint64(len(sc.Disturbs))*1000+uint64(sc.Churn), "churn", 0)
		for k := 0; k < sc.Churn; k++ {
			op := vc.Pick(cr, []string{"disconnect:A", "disconnect:B", "cut", "both-disconnect", "double-cut", "double-cut"})
			nw.L.Add("H", "disturb", "", "churn:"+op, 0)
			switch op {
			case "disconnect:A":
				a.Disconnect(b.SKI)
			case "disconnect:B":
				b.Disconnect(a.SKI)
			case "both-disconnect":
				done := make(chan struct{})
				go func() { a.Disconnect(b.SKI); close(done) }()
				b.Disconnect(a.SKI)
				<-done
			case "cut":
				nw.Proxy(a, b).Cut()
				nw.Proxy(b, a).Cut()
			case "double-cut":
				// both sides close and redial at once; when the second new TCP connection is there (a double
				// connection is being resolved) everything is cut a few milliseconds later
				n0 := accepts()
				done := make(chan struct{})
				go func() { a.Disconnect(b.SKI); close(done) }()
				b.Disconnect(a.SKI)
				<-done
				deadline := time.Now().Add(4 * time.Second)
				for accepts() < n0+2 && time.Now().Before(deadline) {
					time.Sleep(100 * time.Microsecond)
				}
				time.Sleep(time.Duration(cr.Intn(25)) * time.Millisecond)
				nw.Proxy(a, b).Cut()
				nw.Proxy(b, a).Cut()
			}
			time.Sleep(50 * time.Millisecond)
			if !WaitFor(40*time.Second, func() bool { ok, _ := pairState(nw, a, b); return ok }) {
				tl("churn: not reconverged after " + op)
				break
			}
			n0 := accepts()
			time.Sleep(900 * time.Millisecond)
			if ok, _ := pairState(nw, a, b); !ok || accepts() != n0 {
				continue // not a settled point (another run started meanwhile)
			}
			res.ChurnRuns++
			checkpoint("checkpoint-pairing")
		}
	}
	res.Evs = nw.L.Events()
	return res
}

// ---- monitors over the pair log ----------------------------------------------------------------------

type hubFinding struct{ Prop, Sig, Detail string }

// monitorAccounting (C11, application level): per node, the setup / disconnected notifications end
// consistent with reality: the last one is "setup" exactly when a completed connection is registered.
func monitorAccounting(res pairResult, class func(string)) []hubFinding {
	var out []hubFinding
	for _, e := range res.Evs {
		if e.Kind == "registry-dropped-live" {
			out = append(out, hubFinding{"C11", "registry-entry-dropped-for-live-connection", fmt.Sprintf("%s: the registry entry of connection %s was dropped or replaced while that connection was still open 1.5 s later", e.Who, e.S)})
			break
		}
	}
	if !res.Converged {
		return out
	}
	for _, who := range []string{"A", "B"} {
		last := ""
		setups, discs := 0, 0
		for _, e := range res.Evs {
			if e.Who != who {
				continue
			}
			// a restarted node has a fresh application history
			if e.Kind == "api:start" {
				last, setups, discs = "", 0, 0
			}
			switch e.Kind {
			case "setup":
				last = "setup"
				setups++
			case "disconnected":
				last = "disconnected"
				discs++
			case "final-pairing", "checkpoint-pairing":
				// a settled point: both registries hold one open completed connection
				class(fmt.Sprintf("setups=%d:disconnects=%d", min(setups, 6), min(discs, 6)))
				if last != "setup" {
					out = append(out, hubFinding{"C11", "last-notification-not-setup:converged", fmt.Sprintf("%s: a completed connection is registered, but the last of the setup/disconnect notifications is %q (setups %d, disconnects %d, %s)", who, last, setups, discs, e.Kind)})
				}
			}
		}
		if discs > setups {
			// every disconnect notification needs a connection of this SKI that ended; a connection
			// that never was set up may still end, so this is a class, not a violation
			class("more-disconnects-than-setups")
		}
	}
	return out
}

// monitorNotifications (C18, final clause): the last pairing-state notification equals the state
// the hub reports when asked, at the settled point.
func monitorNotifications(res pairResult, class func(string)) []hubFinding {
	var out []hubFinding
	if !res.Converged {
		return nil
	}
	for _, who := range []string{"A", "B"} {
		mark := 0
		last, final, lastAtFinal := -1, -1, -1
		var seq, seqAtFinal []string
		for _, e := range res.Evs {
			if e.Who != who {
				continue
			}
			if e.Kind == "api:start" {
				last, seq = -1, nil
			}
			if final >= 0 && e.Kind == "pairing" {
				class("notifications-in-churn-phase")
			}
			if e.Kind == "pairing" {
				last = e.N
				seq = append(seq, fmt.Sprint(e.N))
			}
			if e.Kind == "final-pairing" {
				mark = len(seq)
				final, lastAtFinal = e.N, last
				seqAtFinal = append([]string(nil), seq...)
			}
			if e.Kind == "checkpoint-pairing" {
				// churn phase: a settled point after a further connection run
				class("churn-checkpoint")
				class("churn-seq:" + strings.Join(seq[mark:], ""))
				mark = len(seq)
				if last != e.N {
					out = append(out, hubFinding{"C18", fmt.Sprintf("last-notification-stale:%d-vs-%d", last, e.N), fmt.Sprintf("%s: after a reconnect the last ServicePairingDetailUpdate state is %d, PairingDetailForSki says %d (sequence %v)", who, last, e.N, seq)})
				}
			}
		}
		if final >= 0 {
			last, seq = lastAtFinal, seqAtFinal
		}
		class("seq:" + strings.Join(seq, ""))
		// order clause, decidable when exactly one connection ever existed for the SKI: a successful
		// attempt maps to queued(1) / received-request(3) / initiated(2), in-progress(4), trusted(5),
		// in-progress(4), pin(6), in-progress(4), completed(7); intermediate notifications may be
		// skipped, so the delivered sequence (stutters collapsed) has to be a subsequence of it
		if res.Undisturbed && res.Accepts == 1 {
			// (a request that waits for the local user adds received-request(3) and in-progress(4) after the first 4)
			master := []string{"1", "3", "2", "4", "3", "4", "5", "4", "6", "4", "7"}
			var col []string
			for _, x := range seq {
				if len(col) == 0 || col[len(col)-1] != x {
					col = append(col, x)
				}
			}
			k := 0
			for _, x := range col {
				for k < len(master) && master[k] != x {
					k++
				}
				if k == len(master) {
					out = append(out, hubFinding{"C18", "older-state-after-newer", fmt.Sprintf("%s: delivered pairing states %v are not an order-preserving selection of %v (single connection, successful attempt)", who, col, master)})
					break
				}
				k++
			}
			class("order-clause-checked")
		}
		if final >= 0 && last != final {
			out = append(out, hubFinding{"C18", fmt.Sprintf("last-notification-stale:%d-vs-%d", last, final), fmt.Sprintf("%s: last ServicePairingDetailUpdate state %d, PairingDetailForSki says %d (sequence %v)", who, last, final, seq)})
		}
	}
	return out
}
