package hubnet

import (
	"fmt"
	"time"

	vc "verifcommon"
)

// C10: pairing follows user intent. Three hubs: D (observed) and two targets; operation scripts on D
// interleaved with mDNS visibility changes and with what the targets do. The oracle works on the
// global sequence numbers / times of API call/return events and of TCP accepts at D's proxies.

type c10Op struct {
	Kind string        `json:"kind"` // register, unregister, cancel, auto-on, auto-off, disconnect, shutdown, hide, show, peer-register, peer-unregister
	T    int           `json:"t"`    // target index 0/1
	Gap  time.Duration `json:"gap"`
	// AtDial: the operation is issued DelayUs microseconds after the target's hub accepted the websocket of
	// D's next outbound dial, i.e. while D's side of that dial is being turned into a registered connection;
	// without a dial within 5 s it is issued anyway
	AtDial  bool `json:"at_dial,omitempty"`
	DelayUs int  `json:"delay_us,omitempty"`
}

type C10Scn struct {
	ID  string  `json:"id"`
	Ops []c10Op `json:"ops"`
}

const c10Delta = 500 * time.Millisecond

func genC10(r *vc.Rand) *C10Scn {
	sc := &C10Scn{}
	// a quarter of the scripts starts with a directed prefix around a pending pairing: the remote
	// side accepts (or the own side re-registers) only after the local user changed his mind
	if r.Chance(1, 2) {
		t := r.Intn(2)
		ms := func(n int) time.Duration { return time.Duration(n) * time.Millisecond }
		switch r.Intn(7) {
		case 4, 5, 6: // the user changes his mind (or shuts down) exactly while the dial is being established
			kind := vc.Pick(r, []string{"unregister", "unregister", "cancel", "shutdown"})
			delays := []int{0, 0, 20, 50, 100, 150, 200, 300, 400, 600, 1000, 2000}
			sc.Ops = append(sc.Ops, c10Op{Kind: "peer-register", T: t, Gap: ms(200)})
			if kind != "shutdown" {
				// several rounds: every register starts a new delayed dial, the user withdraws while it is established
				for k := 0; k < 3; k++ {
					sc.Ops = append(sc.Ops, c10Op{Kind: "register", T: t},
						c10Op{Kind: vc.Pick(r, []string{"unregister", "unregister", "cancel"}), T: t, Gap: ms(700), AtDial: true, DelayUs: vc.Pick(r, delays)})
				}
			}
			sc.Ops = append(sc.Ops, c10Op{Kind: "register", T: t},
				c10Op{Kind: kind, T: t, Gap: ms(2500), AtDial: true, DelayUs: vc.Pick(r, delays)})
			if kind == "shutdown" {
				return sc
			}
		case 0: // D asks, remote undecided, D cancels, remote accepts later
			sc.Ops = append(sc.Ops, c10Op{Kind: "register", T: t, Gap: ms(700)}, c10Op{Kind: "cancel", T: t, Gap: ms(300)}, c10Op{Kind: "peer-register", T: t, Gap: ms(2500)})
		case 1:
			sc.Ops = append(sc.Ops, c10Op{Kind: "register", T: t, Gap: ms(700)}, c10Op{Kind: "unregister", T: t, Gap: ms(300)}, c10Op{Kind: "peer-register", T: t, Gap: ms(2500)})
		case 2: // remote asks, D undecided (pending), D cancels, remote keeps trying
			sc.Ops = append(sc.Ops, c10Op{Kind: "peer-register", T: t, Gap: ms(700)}, c10Op{Kind: "cancel", T: t, Gap: ms(1600)})
		case 3: // remote asks, D accepts, D unregisters, remote still registered
			sc.Ops = append(sc.Ops, c10Op{Kind: "peer-register", T: t, Gap: ms(700)}, c10Op{Kind: "register", T: t, Gap: ms(700)}, c10Op{Kind: "unregister", T: t, Gap: ms(2500)})
		}
	}
	n := r.Range(3, 12)
	gaps := []int{0, 50, 300, 700, 1200, 1600, 2500}
	down := false
	for i := 0; i < n && !down; i++ {
		op := c10Op{T: r.Intn(2), Gap: time.Duration(vc.Pick(r, gaps)) * time.Millisecond}
		switch x := r.Intn(20); {
		case x < 5:
			op.Kind = "register"
		case x < 9:
			op.Kind = "unregister"
		case x < 11:
			op.Kind = "cancel"
		case x < 12:
			op.Kind = "auto-on"
		case x < 13:
			op.Kind = "auto-off"
		case x < 14:
			op.Kind = "disconnect"
		case x < 15:
			op.Kind = "hide"
		case x < 16:
			op.Kind = "show"
		case x < 18:
			op.Kind = "peer-register"
		case x < 19:
			op.Kind = "peer-unregister"
		default:
			if i > 2 {
				op.Kind = "shutdown"
				op.Gap = 3 * time.Second
				down = true
			} else {
				op.Kind = "register"
			}
		}
		sc.Ops = append(sc.Ops, op)
	}
	return sc
}

type c10Result struct {
	Evs      []Ev
	Trusted  [2]bool
	LiveOut  [2]int
	SetupErr string
	SKIs     [2]string
	AutoOn   bool
	Down     bool
}

func runC10(sc *C10Scn) (res c10Result) {
	nw := NewNet()
	defer nw.Close()
	d, err := nw.AddNode("D", nil)
	if err != nil {
		res.SetupErr = err.Error()
		return
	}
	var ts [2]*Node
	for i := range ts {
		ts[i], err = nw.AddNode(fmt.Sprintf("T%d", i), nil)
		if err != nil {
			res.SetupErr = err.Error()
			return
		}
		if err := nw.Link(d, ts[i]); err != nil {
			res.SetupErr = err.Error()
			return
		}
		res.SKIs[i] = ts[i].SKI
	}
	d.App.AllowWait.Store(true)
	d.Start()
	ts[0].Start()
	ts[1].Start()
	time.Sleep(100 * time.Millisecond)
	for _, op := range sc.Ops {
		t := ts[op.T]
		if op.AtDial {
			// wait for D's next outbound TCP connection, then for the moment the target's hub has accepted the
			// websocket (its registry holds a connection for D): D's dial returns from the upgrade right then
			// and goes through keep-this-connection / handler creation / registration within microseconds
			px := nw.Proxy(d, t)
			n0 := px.Accepts.Load()
			deadline := time.Now().Add(5 * time.Second)
			for px.Accepts.Load() == n0 && time.Now().Before(deadline) {
				time.Sleep(100 * time.Microsecond)
			}
			if px.Accepts.Load() != n0 {
				for time.Now().Before(deadline) {
					if _, ok := t.H().VerifRegistry()[d.SKI]; ok {
						break
					}
					time.Sleep(20 * time.Microsecond)
				}
				nw.L.Add("H", "at-dial", t.SKI, "", op.DelayUs)
			}
			time.Sleep(time.Duration(op.DelayUs) * time.Microsecond)
		}
		switch op.Kind {
		case "register":
			d.Register(t.SKI)
		case "unregister":
			d.Unregister(t.SKI)
		case "cancel":
			d.Cancel(t.SKI)
		case "auto-on":
			d.SetAutoAccept(true)
			res.AutoOn = true
		case "auto-off":
			d.SetAutoAccept(false)
			res.AutoOn = false
		case "disconnect":
			d.Disconnect(t.SKI)
		case "shutdown":
			d.Shutdown()
			res.Down = true
		case "hide":
			nw.Bus.SetVisible(d, t, false)
		case "show":
			nw.Bus.SetVisible(d, t, true)
		case "peer-register":
			t.Register(d.SKI)
		case "peer-unregister":
			t.Unregister(d.SKI)
		}
		time.Sleep(op.Gap)
	}
	// settle: longer than the largest dial delay (table 1-2 / 2-3 / 3-4 s) and the close delays
	time.Sleep(4500 * time.Millisecond)
	nw.L.Add("H", "settled", "", "", 0)
	for i, t := range ts {
		res.Trusted[i] = d.Hub.ServiceForSKI(t.SKI).Trusted()
		res.LiveOut[i] = nw.Proxy(d, t).Live()
	}
	res.Evs = nw.L.Events()
	return res
}

func evalC10(col *vc.Collector, sc *C10Scn, res c10Result) {
	const prop = "C10"
	col.Eval(prop, 1)
	col.Eval("C01", 1)
	if res.SetupErr != "" {
		col.Inconclusive(prop, "setup")
		return
	}
	wit := map[string]any{"scenario": sc, "trusted": res.Trusted, "live_outbound": res.LiveOut, "log": Compact(res.Evs, 300)}
	var kinds []string
	for i := 0; i+1 < len(sc.Ops); i++ {
		kinds = append(kinds, sc.Ops[i].Kind+">"+sc.Ops[i+1].Kind)
	}
	for _, e := range res.Evs {
		if e.Who == "H" && e.Kind == "at-dial" {
			col.Count(prop, "operations-issued-while-a-dial-is-established", 1)
			col.Class(prop, fmt.Sprintf("at-dial:+%dus", e.N))
		}
	}
	for _, k := range kinds {
		col.Class(prop, "op-pair:"+k)
		col.Class("C01", "hub:op-pair:"+k)
	}
	var shutdownRet time.Duration = -1
	for ti, ski := range res.SKIs {
		registered := false // a register call for this SKI has been issued (call event) and no unregister returned since
		everRegistered := false
		var unregRet time.Duration = -1 // time the last unregister/cancel returned with no register since
		var unregSeq int64 = -1
		autoOn := false
		var autoOffAt time.Duration = -1
		dials := 0
		var lastSetupSeq int64 = -1
		closedDial := false
		knownSig := func(sig string) string {
			if closedDial {
				return "trust-restored-after-withdrawal-during-dial"
			}
			return sig
		}
		// a cancel aborts a pending handshake; only an unregister has to close a completed connection
		lastWasUnregister := false
		for _, e := range res.Evs {
			if e.Who != "D" {
				continue
			}
			if e.Kind == "api:autoaccept" {
				if autoOn && e.S != "true" {
					// a handshake whose trust decision was taken while auto-accept was on may still complete
					// shortly after it was switched off
					autoOffAt = e.T
				}
				autoOn = e.S == "true"
			}
			autoEff := autoOn || autoOffAt >= 0 && e.T < autoOffAt+c10Delta
			if e.Kind == "api:shutdown-ret" {
				shutdownRet = e.T
			}
			if e.Ski != ski {
				continue
			}
			switch e.Kind {
			case "api:register":
				registered, everRegistered = true, true
				unregRet, unregSeq = -1, -1
				lastWasUnregister = false
				closedDial = false
			case "api:unregister-ret", "api:cancel-ret":
				registered = false
				unregRet, unregSeq = e.T, e.Seq
				lastWasUnregister = e.Kind == "api:unregister-ret"
				// was this withdrawal issued while a dial to the target was being established (at-dial operation),
				// and did that dial's TCP connection end right away? Then the hub did close the dial; if the service
				// is trusted again afterwards, the hello-ok report of the closing dial restored the trust (recorded finding)
				closedDial = false
				atDial := false
				for _, x := range res.Evs {
					if x.Who == "H" && x.Kind == "at-dial" && x.Ski == ski && x.T <= e.T && e.T-x.T < 100*time.Millisecond {
						atDial = true
					}
					if atDial && x.Who == "D" && x.Kind == "tcp-end" && x.Ski == ski && x.T >= e.T-100*time.Millisecond && x.T <= e.T+400*time.Millisecond {
						closedDial = true
					}
				}
			case "tcp-accept":
				dials++
				switch {
				case !everRegistered:
					col.Violation(prop, "dial-to-never-registered-ski", fmt.Sprintf("outbound TCP connection to target %d at %v although it was never registered", ti, e.T), sc.ID, wit)
				case !registered && unregRet >= 0 && e.T > unregRet+c10Delta:
					col.Violation(prop, knownSig("dial-after-unregister"), fmt.Sprintf("outbound TCP connection to target %d at %v, %v after unregister/cancel returned, with no register in between", ti, e.T, e.T-unregRet), sc.ID, wit)
				}
				if shutdownRet >= 0 && e.T > shutdownRet+c10Delta {
					col.Violation(prop, "dial-after-shutdown", fmt.Sprintf("outbound TCP connection at %v, %v after Shutdown returned", e.T, e.T-shutdownRet), sc.ID, wit)
				}
			case "pairing":
				if e.N == 5 && autoEff && !registered {
					// auto-accept grants trust when the hello phase ends (hello-ok), also if the handshake does
					// not get as far as the setup of the remote device
					registered, everRegistered = true, true
					unregRet, unregSeq = -1, -1
					col.Count(prop, "auto-accept-pairings", 1)
				}
			case "setup":
				lastSetupSeq = e.Seq
				// C01 at hub level: the remote device is set up although the local side has not granted
				// trust at that moment (not registered, or unregistered/cancelled since; auto-accept off)
				col.Count("C01", "hub:setups-observed", 1)
				if !registered && !autoEff {
					ut := time.Duration(-1)
					for _, x := range res.Evs {
						if x.Seq == unregSeq {
							ut = x.T
						}
					}
					if ut < 0 || e.T > ut+c10Delta {
						col.Violation("C01", knownSig("hub:setup-without-trust"), fmt.Sprintf("SetupRemoteDevice for target %d at %v while the SKI is not registered and auto-accept is off", ti, e.T), sc.ID, wit)
					}
				}
				if autoEff && !registered {
					// auto-accept pairs whoever connects: from here on the SKI counts as registered
					// (the hub marks it trusted) until it is unregistered again
					registered, everRegistered = true, true
					unregRet, unregSeq = -1, -1
					col.Count(prop, "auto-accept-pairings", 1)
					continue
				}
				if !registered && unregSeq >= 0 && e.Seq > unregSeq && !autoEff {
					// a completion that merely raced the call has to be undone at once: the connection is closed
					// within a moment (or the user registers again); one that is still there 700 ms later survived the withdrawal
					gone := false
					for _, x := range res.Evs {
						if x.Seq <= e.Seq || x.Ski != ski || x.Who != "D" {
							continue
						}
						if x.T > e.T+700*time.Millisecond {
							break
						}
						if x.Kind == "disconnected" || x.Kind == "tcp-end" || x.Kind == "api:register" || x.Kind == "api:shutdown" {
							gone = true
							break
						}
					}
					var settledAt time.Duration
					for _, x := range res.Evs {
						if x.Who == "H" && x.Kind == "settled" {
							settledAt = x.T
						}
					}
					if !gone && (settledAt == 0 || e.T+700*time.Millisecond < settledAt) {
						col.Violation(prop, knownSig("connection-survived-withdrawal"), fmt.Sprintf("remote device of target %d set up at %v, after unregister/cancel returned, and the connection is still there 700 ms later (auto-accept off)", ti, e.T), sc.ID, wit)
						col.Violation("C01", knownSig("hub:connection-survived-withdrawal"), fmt.Sprintf("target %d set up after the user withdrew trust and not closed again", ti), sc.ID, wit)
					}
					// tolerate a completion that was racing the unregister call itself
					var ut time.Duration
					for _, x := range res.Evs {
						if x.Seq == unregSeq {
							ut = x.T
						}
					}
					if e.T > ut+c10Delta {
						col.Violation(prop, knownSig("setup-after-unregister"), fmt.Sprintf("remote device of target %d set up at %v, after unregister/cancel returned at %v (auto-accept off)", ti, e.T, ut), sc.ID, wit)
					}
				}
			}
		}
		col.Class(prop, fmt.Sprintf("dials:%d:ever-registered=%v", min(dials, 5), everRegistered))
		// end state
		if !registered && everRegistered && !res.Down {
			if res.Trusted[ti] {
				col.Violation(prop, knownSig("still-trusted-after-unregister"), fmt.Sprintf("target %d: ServiceForSKI().Trusted() is true after unregister/cancel", ti), sc.ID, wit)
			}
			if res.LiveOut[ti] > 0 && !autoOn && unregSeq >= 0 && lastSetupSeq > unregSeq {
				// C01 at hub level, end state: a remote device that was set up after the user withdrew trust is
				// still connected when everything has settled (a completion that merely raced the call is closed by then)
				col.Violation("C01", knownSig("hub:connected-without-trust-at-the-end"), fmt.Sprintf("target %d was set up after unregister/cancel returned and is still connected at the end (auto-accept off)", ti), sc.ID, wit)
			}
			if res.LiveOut[ti] > 0 && lastWasUnregister {
				col.Violation(prop, "connection-alive-after-unregister", fmt.Sprintf("target %d: %d live outbound TCP connections after unregister and settling", ti, res.LiveOut[ti]), sc.ID, wit)
			}
		}
		if !everRegistered && res.Trusted[ti] {
			col.Violation(prop, "trusted-without-register", fmt.Sprintf("target %d is trusted although never registered and auto-accept is off", ti), sc.ID, wit)
		}
	}
	if col.WantSample(prop) {
		col.Sample(prop, map[string]any{"ops": sc.Ops})
	}
}
