package hubnet

import (
	"fmt"
	"strings"
	"time"

	vc "verifcommon"
)

// C18, runs that do not end in "completed": a hub B that registered A keeps asking, A's user has not
// registered B. Per cycle B is shown A's announcement (it dials after its back-off), the announcement is
// hidden again as soon as the TCP connection is there (so that no further run starts), and the run ends in
// one of: A refuses by itself (its application does not allow waiting), A waits for its user (pending),
// A's user cancels, B's user cancels, A's user accepts (and unregisters again afterwards). After every
// run the scenario waits for a quiet period longer than the 500 ms notification delay and takes a
// checkpoint on both hubs: last ServicePairingDetailUpdate state for the peer's SKI versus
// PairingDetailForSki. Runs of the same kind repeat, so that a run ends in the state reported last.

type DenyScn struct {
	ID        string   `json:"id"`
	AllowWait bool     `json:"allow_wait"`
	Cycles    []string `json:"cycles"` // refuse | pending | cancel | peer-cancel | accept-unregister
	SlowApp   [2]int   `json:"slow_app_ms"`
}

func genDeny(r *vc.Rand) *DenyScn {
	sc := &DenyScn{AllowWait: r.Chance(2, 3)}
	n := r.Range(3, 7)
	kinds := []string{"refuse"}
	if sc.AllowWait {
		kinds = []string{"cancel", "cancel", "cancel-early", "cancel-early", "peer-cancel", "pending", "accept-unregister"}
	}
	for i := 0; i < n; i++ {
		sc.Cycles = append(sc.Cycles, vc.Pick(r, kinds))
	}
	if r.Chance(1, 4) {
		sc.SlowApp = [2]int{vc.Pick(r, []int{0, 50, 300}), vc.Pick(r, []int{0, 50, 300})}
	}
	return sc
}

type denyResult struct {
	Evs      []Ev
	Setup    string
	Timeline []string
}

func runDeny(sc *DenyScn) (res denyResult) {
	nw := NewNet()
	defer nw.Close()
	a, err := nw.AddNode("A", nil)
	if err != nil {
		res.Setup = err.Error()
		return
	}
	b, err := nw.AddNode("B", nil)
	if err != nil {
		res.Setup = err.Error()
		return
	}
	if err := nw.Link(a, b); err != nil {
		res.Setup = err.Error()
		return
	}
	a.App.AllowWait.Store(sc.AllowWait)
	a.App.SlowMs.Store(int32(sc.SlowApp[0]))
	b.App.SlowMs.Store(int32(sc.SlowApp[1]))
	tl := func(s string) {
		res.Timeline = append(res.Timeline, fmt.Sprintf("%v %s", time.Since(nw.L.t0).Round(time.Millisecond), s))
	}
	// nobody sees anybody at first; A never dials (it registers B only in the accept cycles)
	nw.Bus.SetVisible(a, b, false)
	nw.Bus.SetVisible(b, a, false)
	a.Start()
	b.Start()
	b.Register(a.SKI)
	px := nw.Proxy(b, a)
	live := func() int { return nw.Proxy(a, b).Live() + px.Live() }
	accepts := func() int32 { return nw.Proxy(a, b).Accepts.Load() + px.Accepts.Load() }
	lastNote := func(who, ski string) int {
		last := -1
		for _, e := range nw.L.Events() {
			if e.Who == who && e.Kind == "pairing" && e.Ski == ski {
				last = e.N
			}
		}
		return last
	}
	checkpoint := func(kind string) bool {
		// quiet for longer than the notification delay, nothing new started, states unchanged
		n0 := accepts()
		sa, sb := a.PairingState(b.SKI), b.PairingState(a.SKI)
		time.Sleep(900 * time.Millisecond)
		// a notification that is merely late (loaded machine) is no verdict: while nothing else changes, wait
		// generously for the last notification to show the current state; one that is stale stays stale
		WaitFor(8*time.Second, func() bool {
			la, lb := lastNote("A", b.SKI), lastNote("B", a.SKI)
			return (la == sa || la == -1 && sa == 0) && (lb == sb || lb == -1 && sb == 0) ||
				accepts() != n0 || sa != a.PairingState(b.SKI) || sb != b.PairingState(a.SKI)
		})
		if accepts() != n0 || sa != a.PairingState(b.SKI) || sb != b.PairingState(a.SKI) {
			tl("not settled after " + kind)
			return false
		}
		nw.L.Add("A", "checkpoint-pairing", b.SKI, kind, sa)
		nw.L.Add("B", "checkpoint-pairing", a.SKI, kind, sb)
		return true
	}
	// user operations on A: note when one is issued while a TCP connection between the hubs is live but A's
	// registry does not hold a connection for B yet (the inbound connection runs, reports states, and is
	// registered a moment later): the operation then does not reach that connection
	opA := func(name string, f func()) {
		if _, ok := a.H().VerifRegistry()[b.SKI]; !ok && live() > 0 {
			nw.L.Add("H", "op-before-registration", "", name, 0)
		}
		f()
	}
	for i, kind := range sc.Cycles {
		nw.L.Add("H", "cycle", "", kind, i)
		n0 := px.Accepts.Load()
		if kind == "peer-cancel" || !b.H().ServiceForSKI(a.SKI).Trusted() {
			// B's user cancelled in an earlier cycle: asks again
			b.Register(a.SKI)
		}
		nw.Bus.SetVisible(b, a, true)
		if !WaitFor(8*time.Second, func() bool { return px.Accepts.Load() > n0 }) {
			tl("no dial in cycle " + kind)
			nw.Bus.SetVisible(b, a, false)
			continue
		}
		nw.Bus.SetVisible(b, a, false)
		switch kind {
		case "refuse":
			// A's application does not wait for the user: A aborts by itself, B is told
			WaitFor(5*time.Second, func() bool { return live() == 0 })
		case "pending":
			WaitFor(5*time.Second, func() bool { return a.PairingState(b.SKI) == 3 })
		case "cancel":
			WaitFor(5*time.Second, func() bool { return a.PairingState(b.SKI) == 3 })
			time.Sleep(time.Duration(50*(i%4)) * time.Millisecond)
			opA("cancel", func() { a.Cancel(b.SKI) })
			WaitFor(5*time.Second, func() bool { return live() == 0 })
		case "cancel-early":
			// the user cancels the very moment the request shows up as pending: the inbound connection may
			// still be on its way into the hub's registry
			deadline := time.Now().Add(5 * time.Second)
			for a.PairingState(b.SKI) != 3 && time.Now().Before(deadline) {
				time.Sleep(20 * time.Microsecond)
			}
			opA("cancel", func() { a.Cancel(b.SKI) })
			// the request is either aborted, or - if the cancel came before the connection was registered - stays pending
			WaitFor(3*time.Second, func() bool { return live() == 0 })
		case "peer-cancel":
			WaitFor(5*time.Second, func() bool { return a.PairingState(b.SKI) == 3 })
			time.Sleep(time.Duration(50*(i%4)) * time.Millisecond)
			b.Cancel(a.SKI)
			WaitFor(5*time.Second, func() bool { return live() == 0 })
		case "accept-unregister":
			WaitFor(5*time.Second, func() bool { return a.PairingState(b.SKI) == 3 })
			opA("register", func() { a.Register(b.SKI) })
			WaitFor(8*time.Second, func() bool { return a.PairingState(b.SKI) == 7 && b.PairingState(a.SKI) == 7 })
			if checkpoint("accepted") {
				res.Timeline = append(res.Timeline, "checkpoint accepted")
			}
			opA("unregister", func() { a.Unregister(b.SKI) })
			WaitFor(5*time.Second, func() bool { return live() == 0 })
		}
		if checkpoint(kind) {
			tl("checkpoint " + kind)
		}
		if kind == "cancel-early" && live() > 0 {
			// still pending: end it before the next cycle
			opA("cancel", func() { a.Cancel(b.SKI) })
			WaitFor(5*time.Second, func() bool { return live() == 0 })
			if checkpoint("cancel-after-early-cancel") {
				tl("checkpoint cancel-after-early-cancel")
			}
		}
		if kind == "pending" {
			// end the waiting before the next cycle
			opA("cancel", func() { a.Cancel(b.SKI) })
			WaitFor(5*time.Second, func() bool { return live() == 0 })
			if checkpoint("cancel-after-pending") {
				tl("checkpoint cancel-after-pending")
			}
		}
	}
	res.Evs = nw.L.Events()
	return res
}

func evalDeny(col *vc.Collector, sc *DenyScn, res denyResult) {
	const prop = "C18"
	col.Eval(prop, 1)
	if res.Setup != "" {
		col.Inconclusive(prop, "setup")
		return
	}
	wit := map[string]any{"scenario": sc, "timeline": res.Timeline, "log": Compact(res.Evs, 300)}
	// cycles in which an operation of A's user came before the inbound connection was registered
	hit := map[int]bool{}
	cyc := -1
	for _, e := range res.Evs {
		if e.Who == "H" && e.Kind == "cycle" {
			cyc = e.N
		}
		if e.Who == "H" && e.Kind == "op-before-registration" {
			hit[cyc] = true
			col.Count(prop, "deny:operations-issued-before-the-connection-was-registered", 1)
		}
	}
	for _, who := range []string{"A", "B"} {
		last := -1
		var seq []string
		mark := 0
		cyc := -1
		for _, e := range res.Evs {
			if e.Who == "H" && e.Kind == "cycle" {
				cyc = e.N
			}
			if e.Who != who {
				continue
			}
			switch e.Kind {
			case "pairing":
				last = e.N
				seq = append(seq, fmt.Sprint(e.N))
			case "checkpoint-pairing":
				col.Count(prop, "deny:checkpoints", 1)
				col.Class(prop, fmt.Sprintf("deny:%s:%s:state=%d:seq=%s", who, e.S, e.N, strings.Join(seq[mark:], "")))
				mark = len(seq)
				if last == -1 && e.N == 0 {
					continue // never notified, nothing to report: state none
				}
				if last != e.N {
					sig := fmt.Sprintf("last-notification-stale:%d-vs-%d", last, e.N)
					if who == "A" && hit[cyc] {
						// recorded finding: cancel / register / unregister do not reach an inbound connection that is
						// running but not registered yet
						sig = "last-notification-stale:operation-before-the-inbound-connection-was-registered"
					}
					col.Violation(prop, sig,
						fmt.Sprintf("%s: at the settled point after a '%s' run the last ServicePairingDetailUpdate state is %d, PairingDetailForSki says %d (sequence %v)", who, e.S, last, e.N, seq), sc.ID, wit)
				}
			}
		}
	}
	if col.WantSample(prop) {
		col.Sample(prop, map[string]any{"scenario": sc, "timeline": res.Timeline})
	}
}
