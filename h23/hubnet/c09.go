package hubnet

import (
	"fmt"
	"strings"
	"time"

	vc "verifcommon"
)

// C09 at hub level: the hub has to hand the SHIP ID the application stored for a SKI to every new
// connection, inbound and outbound. Two real hubs A and B that registered each other; what each
// application stored for the other's SKI is none / the right id / a wrong id (other text, other
// case, prefix, suffix); who dials is steered through one-sided mDNS visibility. A second phase
// lets the application store the reported id (as a real application does), reconnects, and then
// restarts the peer with a changed SHIP ID.
//
// Oracle (safety only; convergence is C05's business): a hub that stored a different id than the
// peer presents never sets the remote device up; with no id stored every setup is preceded by a
// report of the peer's real id since the previous setup; once the id is stored no further report.

type C09Scn struct {
	ID      string `json:"id"`
	Dialler string `json:"dialler"` // A, B or both (mDNS visibility)
	AofB    string `json:"a_of_b"`  // what A stored for B: none, right, wrong, case, prefix, suffix
	BofA    string `json:"b_of_a"`
	Phase2  bool   `json:"phase2"`  // store-on-report, reconnect, peer restarts with another id
	Spell   int    `json:"spell"`   // spelling of the SKI used when the id is stored
	StoreAt string `json:"store_at"` // before-register, after-register, after-start
}

func genC09(r *vc.Rand) *C09Scn {
	kinds := []string{"none", "right", "wrong", "case", "prefix", "suffix"}
	sc := &C09Scn{Dialler: vc.Pick(r, []string{"A", "B", "both"}), AofB: vc.Pick(r, kinds), BofA: vc.Pick(r, []string{"none", "right", "none", "right", "wrong"}),
		Spell: r.Intn(5), StoreAt: vc.Pick(r, []string{"before-register", "after-register", "after-start"})}
	if sc.AofB == "none" && sc.BofA != "wrong" && r.Chance(2, 3) {
		sc.Phase2 = true
	}
	return sc
}

func mismatchKind(kind string) bool { return kind != "none" && kind != "right" }

func storedID(kind, real string) string {
	switch kind {
	case "right":
		return real
	case "wrong":
		return "OTHER-" + real
	case "case":
		return strings.ToLower(real)
	case "prefix":
		return real[:len(real)-1]
	case "suffix":
		return real + "X"
	}
	return ""
}

type c09Result struct {
	Evs      []Ev
	Setup    string
	Timeline []string
}

func runC09(sc *C09Scn) (res c09Result) {
	nw := NewNet()
	defer nw.Close()
	a, err := nw.AddNode("A", nil)
	if err != nil {
		res.Setup = "setup: " + err.Error()
		return
	}
	b, err := nw.AddNode("B", nil)
	if err != nil {
		res.Setup = "setup: " + err.Error()
		return
	}
	if err := nw.Link(a, b); err != nil {
		res.Setup = "setup: " + err.Error()
		return
	}
	mark := func(s string) {
		nw.L.Add("H", "mark", "", s, 0)
		res.Timeline = append(res.Timeline, s)
	}
	store := func(x, y *Node, kind string) {
		if id := storedID(kind, y.ShipID); id != "" {
			x.H().ServiceForSKI(respell(y.SKI, sc.Spell)).SetShipID(id)
			nw.L.Add(x.Name, "stored-id", y.SKI, id, 0)
		}
	}
	if sc.Dialler == "A" {
		nw.Bus.SetVisible(b, a, false)
	} else if sc.Dialler == "B" {
		nw.Bus.SetVisible(a, b, false)
	}
	if sc.StoreAt == "before-register" {
		store(a, b, sc.AofB)
		store(b, a, sc.BofA)
	}
	a.Register(b.SKI)
	b.Register(a.SKI)
	if sc.StoreAt == "after-register" {
		store(a, b, sc.AofB)
		store(b, a, sc.BofA)
	}
	if sc.StoreAt == "after-start" {
		// the id becomes known to the application while the hubs are not visible to each other yet
		nw.Bus.SetVisible(a, b, false)
		nw.Bus.SetVisible(b, a, false)
	}
	a.Start()
	b.Start()
	if sc.StoreAt == "after-start" {
		store(a, b, sc.AofB)
		store(b, a, sc.BofA)
		if sc.Dialler != "B" {
			nw.Bus.SetVisible(a, b, true)
		}
		if sc.Dialler != "A" {
			nw.Bus.SetVisible(b, a, true)
		}
	}
	mark("phase1")
	setups := func(x *Node, y *Node) int {
		n := 0
		for _, e := range nw.L.Events() {
			if e.Who == x.Name && e.Kind == "setup" && e.Ski == y.SKI {
				n++
			}
		}
		return n
	}
	if mismatchKind(sc.AofB) || mismatchKind(sc.BofA) {
		// watch several connection attempts (back-off 0-1 s, 1-2 s, 2-3 s)
		time.Sleep(3500 * time.Millisecond)
	} else {
		WaitFor(12*time.Second, func() bool { return setups(a, b) > 0 && setups(b, a) > 0 })
		time.Sleep(300 * time.Millisecond)
	}
	if sc.Phase2 && setups(a, b) > 0 {
		// the application stores what was reported (phase 1 had nothing stored at A)
		for _, e := range nw.L.Events() {
			if e.Who == "A" && e.Kind == "shipid" && e.Ski == b.SKI {
				a.H().ServiceForSKI(b.SKI).SetShipID(e.S)
				nw.L.Add("A", "stored-id", b.SKI, e.S, 0)
				break
			}
		}
		mark("phase2-reconnect")
		n0 := setups(a, b)
		a.Disconnect(b.SKI)
		WaitFor(12*time.Second, func() bool { return setups(a, b) > n0 })
		time.Sleep(300 * time.Millisecond)
		// the peer comes back with another SHIP ID under the same SKI
		bReg := a.SKI
		b.ShipID = "CHANGED-" + b.ShipID
		b.Restart()
		b.Register(bReg)
		// whatever the old instance still sent before it went down has been processed by now
		time.Sleep(400 * time.Millisecond)
		mark("phase3-peer-changed-id")
		b.Start()
		time.Sleep(3500 * time.Millisecond)
	}
	mark("end")
	res.Evs = nw.L.Events()
	return res
}

func evalC09(col *vc.Collector, sc *C09Scn, res c09Result) {
	const prop = "C09"
	col.Eval(prop, 1)
	if res.Setup != "" {
		col.Inconclusive(prop, "hub scenario setup")
		return
	}
	wit := map[string]any{"scenario": sc, "timeline": res.Timeline, "log": Compact(res.Evs, 250)}
	col.Class(prop, fmt.Sprintf("hub:dialler=%s:AofB=%s:BofA=%s:phase2=%v:store=%s", sc.Dialler, sc.AofB, sc.BofA, sc.Phase2, sc.StoreAt))
	skiOf := map[string]string{}
	for _, e := range res.Evs {
		if e.Kind == "stored-id" || e.Kind == "api:register" {
			// A registers B's SKI and vice versa
			if e.Who == "A" {
				skiOf["B"] = e.Ski
			} else if e.Who == "B" {
				skiOf["A"] = e.Ski
			}
		}
	}
	check := func(x, y, kind string) {
		peerSKI := skiOf[y]
		realID := "SHIPID-" + y
		phase := "phase1"
		stored := storedID(kind, realID)
		sinceSetup := 0 // id reports since the previous setup
		for _, e := range res.Evs {
			if e.Who == "H" && e.Kind == "mark" {
				phase = e.S
				if phase == "phase3-peer-changed-id" && x == "B" {
					// a restarted device: new hub, nothing stored
					stored, sinceSetup = "", 0
				}
				continue
			}
			if e.Who == x && e.Kind == "stored-id" && e.Ski == peerSKI {
				stored = e.S
				continue
			}
			if e.Who == "B(before-restart)" || e.Who == "A(before-restart)" {
				continue
			}
			if e.Who != x || e.Ski != peerSKI {
				continue
			}
			presented := realID
			if x == "A" && phase == "phase3-peer-changed-id" {
				presented = "CHANGED-" + realID
			}
			switch e.Kind {
			case "shipid":
				sinceSetup++
				if stored != "" {
					col.Violation(prop, "hub:id-reported-although-stored", fmt.Sprintf("%s has %q stored for %s and was told %q (%s)", x, stored, y, e.S, phase), sc.ID, wit)
				}
				if e.S != presented {
					col.Violation(prop, "hub:reported-id-is-not-the-presented-one", fmt.Sprintf("%s was told %q, %s presents %q", x, e.S, y, presented), sc.ID, wit)
				}
			case "setup":
				if stored != "" && stored != presented {
					col.Violation(prop, "hub:setup-after-wrong-id", fmt.Sprintf("%s stored %q for %s, which presents %q, and set the remote device up (%s, %s side dials: %s)", x, stored, y, presented, phase, "mDNS", sc.Dialler), sc.ID, wit)
				}
				if stored == "" && sinceSetup == 0 {
					col.Violation(prop, "hub:setup-without-id-report", fmt.Sprintf("%s has no id stored for %s and set the remote device up without an id report before (%s)", x, y, phase), sc.ID, wit)
				}
				if stored == "" && sinceSetup > 1 && sc.Dialler != "both" {
					col.Violation(prop, "hub:id-reported-more-than-once", fmt.Sprintf("%s: %d id reports before one setup (%s)", x, sinceSetup, phase), sc.ID, wit)
				}
				if stored != "" && stored == presented {
					col.Count(prop, "hub:completed-with-stored-right-id:"+x, 1)
				}
				if stored == "" {
					col.Count(prop, "hub:completed-after-first-report:"+x, 1)
				}
				sinceSetup = 0
			}
		}
		if mismatchKind(kind) {
			col.Count(prop, "hub:scenarios-with-wrong-id-stored:"+x+":"+kind, 1)
		}
	}
	check("A", "B", sc.AofB)
	check("B", "A", sc.BofA)
	if col.WantSample(prop) {
		col.Sample(prop, map[string]any{"scenario": sc, "timeline": res.Timeline})
	}
}
